#!/bin/sh
# Nothing to build: the framework is plain Python run by /venv/bin/python (gwf is installed
# editable from /repo, so every check imports the current working tree). Verify the environment.
set -e
cd "$(dirname "$0")"
/venv/bin/python -c "import gwf, os; assert os.path.realpath(gwf.__file__).startswith('/repo/src'), gwf.__file__"
d=$(mktemp -d)
SIMCLUSTER_DIR=$d ./simbin/slurm/squeue --noheader >/dev/null
SIMCLUSTER_DIR=$d ./simbin/sge/qstat -f -xml >/dev/null
SIMCLUSTER_DIR=$d ./simbin/lsf/bjobs -noheader >/dev/null 2>&1
rm -rf "$d"
mkdir -p evidence replays
echo setup ok
