#!/venv/bin/python
"""Check that every stored seeded change still applies to /repo's HEAD (scratch worktree under /tmp, removed
afterwards).  Seeds that stop applying after a fix: commit are re-based (meta.json "ported", the delivered patch is
kept as patch.original.diff) and confirmed again with tools/seedcheck.py."""
import os
import subprocess
import sys

HERE = os.path.dirname(os.path.dirname(os.path.abspath(__file__)))
wt = "/tmp/seeds-apply-%d" % os.getpid()
subprocess.run(["git", "-C", "/repo", "worktree", "add", "--detach", wt, "HEAD", "-q"], check=True)
bad = []
try:
    for d in sorted(os.listdir(os.path.join(HERE, "seeded"))):
        p = os.path.join(HERE, "seeded", d, "patch.diff")
        if os.path.exists(p) and subprocess.run(["git", "apply", "--check", p], cwd=wt, capture_output=True).returncode:
            bad.append(d)
finally:
    subprocess.run(["git", "-C", "/repo", "worktree", "remove", "--force", wt])
print("seeds that do not apply to HEAD:", bad or "none")
sys.exit(1 if bad else 0)
