#!/venv/bin/python
"""usage: tools/covreport.py <VERIF_COV dir> [--missing]   merge statement hits; list executable statements never hit"""
import ast
import collections
import glob
import os
import sys

d = sys.argv[1]
src = os.path.join(os.environ.get("GWF_VERIF_REPO", "/repo"), "src")
hit = collections.defaultdict(set)
for f in glob.glob(os.path.join(d, "*.txt")):
    for ln in open(f):
        ln = ln.strip()
        if ":" in ln:
            p, n = ln.rsplit(":", 1)
            hit[p].add(int(n))
tot_s = tot_h = 0
for root, _, files in os.walk(os.path.join(src, "gwf")):
    for fn in sorted(files):
        if not fn.endswith(".py"):
            continue
        path = os.path.join(root, fn)
        rel = os.path.relpath(path, src)
        tree = ast.parse(open(path).read())
        stmts = set()
        for node in ast.walk(tree):
            if isinstance(node, ast.stmt) and not isinstance(node, (ast.FunctionDef, ast.AsyncFunctionDef, ast.ClassDef, ast.Import, ast.ImportFrom)):
                if isinstance(node, ast.Expr) and isinstance(node.value, ast.Constant) and isinstance(node.value.value, str):
                    continue  # docstring
                stmts.add(node.lineno)
        h = hit.get(rel, set())
        miss = sorted(stmts - h)
        tot_s += len(stmts)
        tot_h += len(stmts & h)
        print("%-34s statements %4d  hit %4d  (%.0f%%)" % (rel, len(stmts), len(stmts & h), 100.0 * len(stmts & h) / max(1, len(stmts))))
        if "--missing" in sys.argv and miss:
            lines = open(path).read().splitlines()
            for n in miss:
                print("      %4d  %s" % (n, lines[n - 1].strip()[:110]))
print("TOTAL statements %d hit %d (%.1f%%)" % (tot_s, tot_h, 100.0 * tot_h / max(1, tot_s)))
