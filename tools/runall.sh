#!/bin/sh
# run every check's quick (or $1) tier sequentially; print one line per check
tier=${1:-quick}
cd "$(dirname "$0")/.."
for i in 01 02 03 04 05 06 07 08 09 10 11 12 13 14 15 16 17 18 19 20; do
  out=$(./vcheck C$i --tier $tier 2>&1); rc=$?
  echo "$out" | head -1 | cut -c1-160
  echo "$out" | grep -E "^(VIOLATION|INCONCLUSIVE|  note)" | cut -c1-300 | head -5
  [ $rc -ne 0 ] && echo "   rc=$rc"
done
