#!/venv/bin/python
"""Run the repository's pinned test suite with the verification guard OFF and
compare the set of passing tests with BASELINE.json's stable_pass list."""
import json
import os
import subprocess
import sys
import tempfile
import xml.etree.ElementTree as ET

base = json.load(open("/root/.vp/BASELINE.json")) if os.path.exists("/root/.vp/BASELINE.json") else None
env = dict(os.environ)
env.pop("GWF_VERIF", None)
with tempfile.TemporaryDirectory() as d:
    x = os.path.join(d, "junit.xml")
    p = subprocess.run(
        ["/venv/bin/python", "-m", "pytest", "-ra", "-q", "-p", "no:cacheprovider", "--timeout=900", "--continue-on-collection-errors", "--junitxml=" + x],
        cwd="/repo", env=env, capture_output=True, text=True)
    passed = set()
    for tc in ET.parse(x).getroot().iter("testcase"):
        if not any(c.tag in ("failure", "error", "skipped") for c in tc):
            passed.add("%s::%s" % (tc.get("classname"), tc.get("name")))
print("passed:", len(passed))
if base:
    want = set(base["stable_pass"])
    missing = sorted(want - passed)
    print("baseline stable_pass:", len(want), "missing:", missing)
    sys.exit(1 if missing else 0)
