#!/venv/bin/python
"""Regenerate MANIFEST.json from the check modules present in vlib/checks."""
import importlib
import json
import os
import sys

HERE = os.path.dirname(os.path.dirname(os.path.abspath(__file__)))
sys.path.insert(0, HERE)
props = [json.loads(l) for l in open(os.path.join(HERE, "properties.jsonl"))]
checks = []
na = []
for p in props:
    pid = p["id"]
    path = os.path.join(HERE, "vlib", "checks", pid.lower() + ".py")
    if not os.path.exists(path):
        na.append({"property_id": pid, "reason": "check not built yet (build in progress, see DESIGN.md section 3 for the planned monitor)"})
        continue
    src = open(path).read()
    ns = {}
    # read constants without importing gwf
    for key in ("ID", "LEVEL", "LEVEL_TEXT", "LEVEL_NOTE", "TECHNIQUE", "DESIGN_REF"):
        pass
    import ast
    tree = ast.parse(src)
    consts = {}
    for node in tree.body:
        if isinstance(node, ast.Assign) and len(node.targets) == 1 and isinstance(node.targets[0], ast.Name):
            try:
                consts[node.targets[0].id] = ast.literal_eval(node.value)
            except Exception:
                pass
    checks.append({
        "property_id": pid,
        "quick_cmd": "./vcheck %s --tier quick" % pid,
        "thorough_cmd": "./vcheck %s --tier thorough" % pid,
        "evidence_file": "evidence/%s.json" % pid,
        "replay_cmd_template": "./vcheck %s --replay {path}" % pid,
        "engine": "vcheck",
        "level_claimed": {
            "category": consts["LEVEL"],
            "text": consts.get("LEVEL_TEXT", "runtime monitoring: the real gwf code is run on generated workloads; monitors at gwf's boundaries record histories that an independent oracle decides. Held means: no violation on the executions counted in the evidence file."),
            "design_ref": "DESIGN.md section 3, %s" % pid,
        },
        "level_note": consts.get("LEVEL_NOTE", "; ".join(consts.get("ASSUMPTIONS", [])) or "harness + oracle code under /verif is trusted"),
        "technique": consts.get("TECHNIQUE", "runtime monitoring: generated workloads + boundary history + reference-model oracle"),
    })
m = {
    "version": 1,
    "setup_cmd": "./setup.sh",
    "hooks": {
        "guard": "GWF_VERIF",
        "enable": "no source hooks are needed: monitors attach from outside (simulated scheduler executables on PATH, sys.addaudithook in the forked gwf process, constructor-injected recording objects, patched process factory in the harness). GWF_VERIF is reserved and currently unused by /repo.",
        "baseline_off_cmd": "/verif/tools/baseline_off.py",
        "source_commits": [],
        "add_only": True,
    },
    "engines": [
        {"name": "vcheck", "path": "vcheck", "serves_properties": [c["property_id"] for c in checks],
         "kind_free_text": "runtime monitoring framework (vlib/): fork-per-invocation gwf runner with audit-hook journal and failpoints, simulated Slurm/SGE/LSF executables with a seeded adversary, virtual-time asyncio harness for the local pool, reference-model oracles"},
    ],
    "checks": checks,
    "not_applicable": na,
    "notes": "All checks: exit 0 held / exit 1 VIOLATION / exit 2 INCONCLUSIVE (monitor floors unmet, watchdog). Genuine defects: known_findings.json.",
}
json.dump(m, open(os.path.join(HERE, "MANIFEST.json"), "w"), indent=1)
print("checks:", [c["property_id"] for c in checks], "n/a:", len(na))
