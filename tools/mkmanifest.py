#!/venv/bin/python
"""Regenerate MANIFEST.json from the check modules present in vlib/checks."""
import importlib
import json
import os
import sys

HERE = os.path.dirname(os.path.dirname(os.path.abspath(__file__)))
sys.path.insert(0, HERE)
props = [json.loads(l) for l in open(os.path.join(HERE, "properties.jsonl"))]
TECH = {
 "C01": ("runtime monitoring: real status/run decisions on generated file states vs. reference model (make semantics)", "Held = gwf's decision equalled the independent make-semantics model for every generated (DAG, mtime assignment incl. ties, container shape, path spelling, hash-record state) through the library entry point and the real CLI; exploration is the right level because the input space is unbounded and the decision is a pure function of observable files."),
 "C02": ("runtime monitoring: simulated scheduler journal (submission order, names, parsed prerequisite ids) vs. reference plan", "Held = every observed `gwf run` submitted exactly the reference plan, once each, dependencies first, with exactly the latest ids of the incomplete direct deps, over direct and history-driven backend states on three simulated schedulers."),
 "C03": ("runtime monitoring: Graph relations and `gwf info` vs. relation induced by an independent path resolver", "Held = dependencies/dependents/provides/unresolved/endpoints equalled the set-intersection relation for every generated spelling mix, working directory and definition order."),
 "C04": ("runtime monitoring: exception kind / CLI error / side-effect monitors (snapshot, audit hook, scheduler journal) vs. Kahn-based validator; size sweep", "Held = accept/reject and the named defect kind matched the reference validator for injected duplicate producers, missing sources, self-loops and n-cycles anywhere; every command failed cleanly without side effects; chains/stars/layered graphs up to thousands of targets terminated."),
 "C05": ("runtime monitoring: status rows vs. dry-run lines vs. scheduler journal; tree snapshot + audit hook + state-file comparison around every preview", "Held = the three views agreed with each other and with the reference status table, every filtered view equalled the restriction of that table, and no preview changed anything."),
 "C06": ("runtime monitoring: drive run/drain/status/run loops with really executed job scripts and seeded execution orders; oracle = completed-after-drain, no-op re-run, exact downstream closure after a perturbation", "Held on the adversary's execution orders and perturbations actually produced (counts in evidence), for three simulated schedulers and the real local pool."),
 "C07": ("runtime monitoring: dependency argument checked against each scheduler's grammar and the expected id set; ordering/never-start oracle over the simulator's start/end journal under an adversarial scheduler", "Held = syntactically exact prerequisite arguments and, under every adversarial execution produced, no job started before its prerequisites ended (never after a failed one on Slurm/LSF/local)."),
 "C08": ("runtime monitoring: every documented state code of each scheduler swept through simulated queues with conflicting foreign jobs; truth = what the simulator answered in that invocation", "Held = the shown state was the class my table (from the man pages) assigns to the code the scheduler answered for the target's own latest id; precedence, accounting switch, batching and the real pool checked."),
 "C09": ("runtime monitoring + fault enumeration: k-th scheduler command x failure kind, hard kills between submissions, before/inside/after every state-file operation, and SIGKILL or KeyboardInterrupt at sampled statement boundaries of gwf's own code (sys.monitoring LINE failpoint); oracle over journal and state files", "Held = after each enumerated fault the next invocations started normally, duplicated nothing that was still pending and completed the plan with the right prerequisites (two recorded known findings: the single in-flight job id of a run killed / interrupted before it could store that id)."),
 "C10": ("runtime monitoring: scripts handed to the simulated schedulers are parsed by independent directive readers AND executed with bash; compared with a reference execution of the bare spec", "Held = directives equalled the independently resolved options and executing the script behaved exactly like the spec run with bash -e in the working directory (hostile directory names), logs landed where `gwf logs` reads them, log cleaning was safe."),
 "C11": ("runtime monitoring: invariant hook at every process spawn of the real Scheduler on a virtual-time event loop; adversary-chosen event orders", "Held on the distinct interleavings counted in the evidence: every spawn saw all dependencies COMPLETED with exit 0; tasks behind failed/cancelled dependencies never started."),
 "C12": ("runtime monitoring: live-process count at every spawn and quiescent point, work-conservation invariant; real-process interval overlap", "Held = never more live processes than cores and no idle core next to a ready task, on the interleavings observed."),
 "C13": ("runtime monitoring: recorded state-transition history vs. sequential reference model replaying the adversary's event log; logs byte-compared; marker processes scanned in /proc", "Held = final states matched what happened, no transition left a final state, bounded liveness, complete logs, no surviving processes, on the interleavings observed."),
 "C14": ("runtime monitoring: real Server.handle_connection with in-memory client streams interleaved by an adversary + live TCP abuse of a real pool", "Held = unique ids, undisturbed healthy client, every accepted task final, fresh client served, under the abuse sequences generated."),
 "C15": ("runtime monitoring: tree snapshot + os.remove audit events vs. reference removable set", "Held = removed set equalled the reference set exactly and nothing else changed, for all flag/prompt/protect combinations generated."),
 "C16": ("runtime monitoring: ordered utime/create audit events, snapshots and follow-up status vs. cone oracle", "Held = exactly the cone's outputs touched in dependency order, contents intact, status completed, hashes recorded."),
 "C17": ("runtime monitoring + fault enumeration: cancel commands journalled by simulated schedulers with a failing cancel at each position; real pool lane", "Held = exactly the selected tracked targets' latest ids were cancelled once, failures were reported and did not stop the rest, follow-up status/run consistent."),
 "C18": ("runtime monitoring: spec-hash file compared with a model store after every step of random command histories; status vs. staleness model", "Held = file == model after every step and staleness followed the records, on the histories generated."),
 "C19": ("runtime monitoring: same commands from several invoking directories (whole-tree snapshots), definition-time acceptance tests for names/paths, map naming", "Held = observations identical across invoking directories and equal to workflow-relative meaning; names/paths accepted iff valid; map names distinct and deterministic."),
 "C20": ("runtime monitoring: config command sequences vs. model dict; backend/verbosity/colour precedence observed through scheduler commands, log lines and ANSI codes on a pty; settings observed in scripts/journal/listeners", "Held = round-trip, locality, precedence and namespace routing matched the model for the sequences and combinations generated."),
}
checks = []
na = []
for p in props:
    pid = p["id"]
    path = os.path.join(HERE, "vlib", "checks", pid.lower() + ".py")
    if not os.path.exists(path):
        na.append({"property_id": pid, "reason": "check not built yet (build in progress, see DESIGN.md section 3 for the planned monitor)"})
        continue
    src = open(path).read()
    ns = {}
    # read constants without importing gwf
    for key in ("ID", "LEVEL", "LEVEL_TEXT", "LEVEL_NOTE", "TECHNIQUE", "DESIGN_REF"):
        pass
    import ast
    tree = ast.parse(src)
    consts = {}
    for node in tree.body:
        if isinstance(node, ast.Assign) and len(node.targets) == 1 and isinstance(node.targets[0], ast.Name):
            try:
                consts[node.targets[0].id] = ast.literal_eval(node.value)
            except Exception:
                pass
    checks.append({
        "property_id": pid,
        "quick_cmd": "./vcheck %s --tier quick" % pid,
        "thorough_cmd": "./vcheck %s --tier thorough" % pid,
        "evidence_file": "evidence/%s.json" % pid,
        "replay_cmd_template": "./vcheck %s --replay {path}" % pid,
        "engine": "vcheck",
        "level_claimed": {
            "category": consts["LEVEL"],
            "text": TECH[pid][1] + " 'Held' means: no violation on the executions counted in the evidence file, never 'verified'.",
            "design_ref": "DESIGN.md section 3, %s" % pid,
        },
        "level_note": consts.get("LEVEL_NOTE", "; ".join(consts.get("ASSUMPTIONS", [])) or "harness + oracle code under /verif is trusted"),
        "technique": TECH[pid][0],
    })
m = {
    "version": 1,
    "setup_cmd": "./setup.sh",
    "hooks": {
        "guard": "GWF_VERIF",
        "enable": "no source hooks are needed: monitors attach from outside (simulated scheduler executables on PATH, sys.addaudithook in the forked gwf process, constructor-injected recording objects, patched process factory in the harness). GWF_VERIF is reserved and currently unused by /repo.",
        "baseline_off_cmd": "/verif/tools/baseline_off.py",
        "source_commits": [],
        "add_only": True,
    },
    "engines": [
        {"name": "vcheck", "path": "vcheck", "serves_properties": [c["property_id"] for c in checks],
         "kind_free_text": "runtime monitoring framework (vlib/): fork-per-invocation gwf runner with audit-hook journal and failpoints, simulated Slurm/SGE/LSF executables with a seeded adversary, virtual-time asyncio harness for the local pool, reference-model oracles"},
    ],
    "checks": checks,
    "not_applicable": na,
    "notes": "All checks: exit 0 held / exit 1 VIOLATION / exit 2 INCONCLUSIVE (monitor floors unmet, watchdog). Genuine defects: known_findings.json.",
}
json.dump(m, open(os.path.join(HERE, "MANIFEST.json"), "w"), indent=1)
print("checks:", [c["property_id"] for c in checks], "n/a:", len(na))
