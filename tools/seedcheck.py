#!/venv/bin/python
"""Confirm a seeded change delivered by a sub-agent and run our checks against it.

usage: tools/seedcheck.py <seed dir, e.g. /tmp/seed/C02/seed/1> <property> [more properties to run]

Everything happens in a scratch git worktree of /repo under /tmp (removed afterwards); /repo itself is
not touched.  On success the seed is stored as /verif/seeded/<property>-<n>/.
"""
import json
import os
import shutil
import subprocess
import sys
import time
import xml.etree.ElementTree as ET

HERE = os.path.dirname(os.path.dirname(os.path.abspath(__file__)))


def sh(cmd, **kw):
    return subprocess.run(cmd, capture_output=True, text=True, errors="replace", **kw)


def run_demo(wt, demo):
    env = dict(os.environ, PYTHONPATH=os.path.join(wt, "src"), PYTHONDONTWRITEBYTECODE="1")
    try:
        p = subprocess.run(["/venv/bin/python", demo], cwd=wt, env=env, capture_output=True, text=True, timeout=180)
        return p.returncode, (p.stdout + p.stderr)[-1500:]
    except subprocess.TimeoutExpired:
        return "timeout", ""


def run_tests(wt):
    env = dict(os.environ, PYTHONPATH=os.path.join(wt, "src"), PYTHONDONTWRITEBYTECODE="1")
    x = os.path.join(wt, "junit.xml")
    subprocess.run(["/venv/bin/python", "-m", "pytest", "-q", "-p", "no:cacheprovider", "--timeout=900", "--continue-on-collection-errors", "--junitxml=" + x, "tests"], cwd=wt, env=env, capture_output=True, text=True)
    passed = set()
    for tc in ET.parse(x).getroot().iter("testcase"):
        if not any(c.tag in ("failure", "error", "skipped") for c in tc):
            passed.add("%s::%s" % (tc.get("classname"), tc.get("name")))
    os.remove(x)
    base = set(json.load(open("/root/.vp/BASELINE.json"))["stable_pass"])
    return sorted(base - passed)


def main():
    seed = os.path.abspath(sys.argv[1])
    prop = sys.argv[2]
    props = sys.argv[2:]
    n = os.path.basename(seed)
    owner = os.path.basename(os.path.dirname(os.path.dirname(seed)))  # /tmp/seed/<PROP>/seed/<n>
    tag = "%s-%s" % (owner if owner.startswith("C") else prop, n)
    wt = "/tmp/sv-%s" % tag
    sh(["git", "-C", "/repo", "worktree", "remove", "--force", wt])
    if os.path.exists(wt):  # left behind by an interrupted earlier run and no longer registered
        shutil.rmtree(wt, ignore_errors=True)
        sh(["git", "-C", "/repo", "worktree", "prune"])
    r = sh(["git", "-C", "/repo", "worktree", "add", "--detach", wt, "HEAD"])
    if r.returncode:
        print("worktree failed", r.stderr)
        sys.exit(2)
    report = {"seed": seed, "property": prop}
    try:
        # keep the layout the demo was written for: <worktree>/seed/<n>/demo.py
        os.makedirs(os.path.join(wt, "seed", n), exist_ok=True)
        demo = os.path.join(wt, "seed", n, "demo.py")
        shutil.copy(os.path.join(seed, "demo.py"), demo)
        rc0, out0 = run_demo(wt, demo)
        report["demo_clean_rc"] = rc0
        r = sh(["git", "-C", wt, "apply", os.path.join(seed, "patch.diff")])
        report["patch_applies"] = r.returncode == 0
        if r.returncode:
            report["apply_err"] = r.stderr[-400:]
        rc1, out1 = run_demo(wt, demo)
        report["demo_patched_rc"] = rc1
        report["demo_patched_tail"] = out1[-600:]
        imp = sh(["/venv/bin/python", "-c", "import sys; sys.path.insert(0, %r); import gwf.cli, gwf.backends.local, gwf.backends.slurm, gwf.backends.sge, gwf.backends.lsf" % os.path.join(wt, "src")])
        report["imports"] = imp.returncode == 0
        report["tests_missing_vs_baseline"] = run_tests(wt)
        report["confirmed"] = rc0 == 0 and rc1 == 1 and report["patch_applies"] and report["imports"] and not report["tests_missing_vs_baseline"]
        report["checks"] = {}
        if report["patch_applies"] and report["imports"]:
            for pr in props:
                os.makedirs(os.path.join(wt, "tmp"), exist_ok=True)
                env = dict(os.environ, TMPDIR=os.path.join(wt, "tmp"), GWF_VERIF_REPO=wt, VERIF_OUT=os.path.join(wt, "verif-out"), VERIF_FAILFAST="1")
                t0 = time.time()
                p = sh([os.path.join(HERE, "vcheck"), pr, "--tier", os.environ.get("SEED_TIER", "quick")], cwd=HERE, env=env)
                mechs = sorted({ln.split("mechanism=")[1].split(" ::")[0] for ln in p.stdout.splitlines() if "mechanism=" in ln})
                first_msg = next((ln.strip()[:300] for ln in p.stdout.splitlines() if "mechanism=" in ln), "")
                report["checks"][pr] = {"rc": p.returncode, "caught": p.returncode == 1, "mechs": mechs, "wall": round(time.time() - t0, 1), "head": p.stdout.splitlines()[0][:200] if p.stdout else p.stderr[-300:], "first": first_msg}
    finally:
        sh(["git", "-C", "/repo", "worktree", "remove", "--force", wt])
    print(json.dumps(report, indent=1))
    if report.get("confirmed"):
        dst = os.path.join(HERE, "seeded", tag)
        os.makedirs(dst, exist_ok=True)
        shutil.copy(os.path.join(seed, "patch.diff"), dst)
        shutil.copy(os.path.join(seed, "demo.py"), dst)
        try:
            meta = json.load(open(os.path.join(seed, "meta.json")))
        except Exception:
            meta = {}
        meta["property"] = owner if owner.startswith("C") else prop
        meta["confirmed_by_me"] = {
            "how": "scratch worktree of /repo HEAD: demo exits 0 on the clean tree and 1 with the patch; patched package imports; the 76 baseline tests still pass with the patch",
            "ran": "tools/seedcheck.py %s %s" % (seed, " ".join(props)),
            "demo_clean_rc": rc0,
            "demo_patched_rc": rc1,
        }
        meta["checks_against_it"] = report["checks"]
        json.dump(meta, open(os.path.join(dst, "meta.json"), "w"), indent=1)


if __name__ == "__main__":
    main()
