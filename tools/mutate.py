#!/venv/bin/python
"""Self-validation: apply deliberately broken variants of gwf ("mutants") to a SCRATCH copy of
/repo/src (never to /repo itself), point the named checks at it (GWF_VERIF_REPO) and require a
VIOLATION within the quick budget.  Evidence/replays of these runs go to a scratch directory.

usage: tools/mutate.py [all | <mutant-id> ...] [--list]
"""
import json
import os
import shutil
import subprocess
import sys
import tempfile
import time

HERE = os.path.dirname(os.path.dirname(os.path.abspath(__file__)))
sys.path.insert(0, HERE)
from selftest.mutants import MUTANTS  # noqa: E402


def run_mutant(m, results):
    scratch = tempfile.mkdtemp(prefix="gwfmut-")
    try:
        shutil.copytree("/repo/src", os.path.join(scratch, "src"))
        for f, old, new in m["edits"]:
            p = os.path.join(scratch, "src", "gwf", f)
            s = open(p).read()
            if s.count(old) != 1:
                results.append({"id": m["id"], "error": "pattern occurs %d times in %s" % (s.count(old), f)})
                return
            open(p, "w").write(s.replace(old, new))
        # must still import
        r = subprocess.run(["/venv/bin/python", "-c", "import sys; sys.path.insert(0, %r); import gwf.cli, gwf.backends.local, gwf.backends.slurm, gwf.backends.sge, gwf.backends.lsf" % os.path.join(scratch, "src")], capture_output=True, text=True)
        if r.returncode != 0:
            results.append({"id": m["id"], "error": "mutant does not import: " + r.stderr[-300:]})
            return
        for prop in m["props"]:
            os.makedirs(os.path.join(scratch, "tmp"), exist_ok=True)
            env = dict(os.environ, TMPDIR=os.path.join(scratch, "tmp"), GWF_VERIF_REPO=scratch, VERIF_OUT=os.path.join(scratch, "out"), VERIF_FAILFAST="1", VERIF_DEADLINE=os.environ.get("MUT_DEADLINE", "75"))
            t0 = time.time()
            p = subprocess.run([os.path.join(HERE, "vcheck"), prop, "--tier", "quick"], cwd=HERE, env=env, capture_output=True, text=True, errors="replace")
            mechs = sorted({ln.split("mechanism=")[1].split(" ::")[0] for ln in p.stdout.splitlines() if "mechanism=" in ln})
            results.append({"id": m["id"], "prop": prop, "rc": p.returncode, "caught": p.returncode == 1 and "VIOLATION" in p.stdout, "mechs": mechs, "wall": round(time.time() - t0, 1), "first": p.stdout.splitlines()[0][:160] if p.stdout else p.stderr[-200:]})
    finally:
        shutil.rmtree(scratch, ignore_errors=True)


def main():
    args = [a for a in sys.argv[1:] if not a.startswith("--")]
    if "--list" in sys.argv:
        for m in MUTANTS:
            print(m["id"], m["props"], "-", m["note"])
        return
    sel = MUTANTS if (not args or args == ["all"]) else [m for m in MUTANTS if m["id"] in args or any(a in m["props"] for a in args)]
    results = []
    for m in sel:
        n0 = len(results)
        run_mutant(m, results)
        for r in results[n0:]:
            print(json.dumps(r), flush=True)
    caught = [r for r in results if r.get("caught")]
    missed = [r for r in results if "caught" in r and not r["caught"]]
    errs = [r for r in results if "error" in r]
    print("SUMMARY caught=%d missed=%d errors=%d" % (len(caught), len(missed), len(errs)))
    for r in missed + errs:
        print("  NOT CAUGHT / ERROR:", json.dumps(r))
    out = os.environ.get("MUT_RESULTS")
    if out:
        json.dump(results, open(out, "w"), indent=1)


if __name__ == "__main__":
    main()
