#!/venv/bin/python
"""Re-confirm every stored seeded change against /repo's HEAD and the current checks.

For each /verif/seeded/<PROP>-<n>/ the seed is copied to a scratch directory and handed to tools/seedcheck.py
(scratch worktree; demo 0 on the clean tree / 1 with the patch; package imports; baseline tests; the property's quick
check must report a violation).  seedcheck rewrites the stored meta.json when the seed is confirmed.
usage: tools/seedregress.py [-j N] [PROP-n ...]      results: one line per seed on stdout, summary at the end
"""
import concurrent.futures
import json
import os
import shutil
import subprocess
import sys
import tempfile

HERE = os.path.dirname(os.path.dirname(os.path.abspath(__file__)))


def one(tag, scratch):
    prop, n = tag.split("-")
    d = os.path.join(scratch, prop, "seed", n)
    os.makedirs(d)
    for f in ("patch.diff", "demo.py", "meta.json"):
        shutil.copy(os.path.join(HERE, "seeded", tag, f), d)
    m = json.load(open(os.path.join(d, "meta.json")))
    for k in ("confirmed_by_me", "checks_against_it"):
        m.pop(k, None)
    json.dump(m, open(os.path.join(d, "meta.json"), "w"), indent=1)
    p = subprocess.run([os.path.join(HERE, "tools", "seedcheck.py"), d, prop], capture_output=True, text=True)
    try:
        r = json.loads(p.stdout)
    except ValueError:
        return tag, {"error": (p.stdout + p.stderr)[-300:]}
    k = r.get("checks", {}).get(prop, {})
    return tag, {"confirmed": r.get("confirmed"), "clean": r.get("demo_clean_rc"), "patched": r.get("demo_patched_rc"), "applies": r.get("patch_applies"), "tests_missing": len(r.get("tests_missing_vs_baseline") or []), "caught": k.get("caught"), "wall": k.get("wall"), "mechs": k.get("mechs")}


def main():
    args = sys.argv[1:]
    jobs = 3
    if args[:1] == ["-j"]:
        jobs = int(args[1])
        args = args[2:]
    tags = args or sorted(d for d in os.listdir(os.path.join(HERE, "seeded")) if d.startswith("C"))
    scratch = tempfile.mkdtemp(prefix="seedreg-")
    bad = []
    try:
        with concurrent.futures.ThreadPoolExecutor(jobs) as ex:
            for tag, r in ex.map(lambda t: one(t, scratch), tags):
                ok = r.get("confirmed") and r.get("caught")
                print(("ok   " if ok else "BAD  ") + tag, json.dumps(r), flush=True)
                if not ok:
                    bad.append(tag)
    finally:
        shutil.rmtree(scratch, ignore_errors=True)
    print("SUMMARY seeds=%d ok=%d bad=%s" % (len(tags), len(tags) - len(bad), bad))
    sys.exit(1 if bad else 0)


if __name__ == "__main__":
    main()
