#!/bin/sh
# usage: tools/runsome.sh <tier> C02 C06 ...   - like runall.sh for the named checks
tier=$1; shift
cd "$(dirname "$0")/.."
for c in "$@"; do
  out=$(./vcheck $c --tier $tier 2>&1); rc=$?
  echo "$out" | head -1 | cut -c1-160
  echo "$out" | grep -E "^(VIOLATION|INCONCLUSIVE|  note)" | cut -c1-300 | head -5
  [ $rc -ne 0 ] && echo "   rc=$rc"
done
exit 0
