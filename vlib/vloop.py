"""R3 — virtual-time harness for the real local worker pool (gwf.backends.local).

The real Scheduler / Server objects run on an asyncio SelectorEventLoop whose
selector and clock belong to the harness.  asyncio calls select(timeout != 0)
exactly when no callback is ready: a *quiescent point*.  There the harness
records the observable state, evaluates invariants, and lets a seeded adversary
inject exactly one external event (process exit, cancel request, new task,
time advance to the next timer, client traffic).  Interleavings are the orders
of these external events - the only nondeterminism a cooperative
single-threaded server has.
"""

import asyncio
import json
import os
import random
import selectors
import signal
import sys

from .core import REPO

_src = os.path.join(REPO, "src")
if _src not in sys.path:
    sys.path.insert(0, _src)

FAKE_PID_BASE = 10_000_000  # above pid_max (4194304 at most on Linux)


class VSelector(selectors.DefaultSelector):
    def __init__(self):
        super().__init__()
        self.harness = None

    def select(self, timeout=None):
        if timeout is not None and timeout <= 0:
            return super().select(0)
        if self.harness is not None:
            self.harness.quiescent(timeout)
        return super().select(0)


class VLoop(asyncio.SelectorEventLoop):
    def __init__(self):
        self._vtime = 1000.0
        super().__init__(selector=VSelector())

    def time(self):
        return self._vtime


class FakeProc:
    def __init__(self, h, tid_hint, script, cwd):
        self.h = h
        self.pid = FAKE_PID_BASE + len(h.procs)
        self.returncode = None
        self.script = script
        self.cwd = cwd
        self.kill_calls = 0
        self.term_calls = 0
        self.death_pending = None  # signal number awaiting delivery by the adversary
        self._waiters = []
        self.stdout = ("OUT<%d:%s>" % (self.pid, script)).encode() * 3
        self.stderr = ("ERR<%d:%s>" % (self.pid, script)).encode() * 2
        self.spawn_q = h.qindex
        self.spawn_t = h.loop.time()
        self.natural_exit = None

    # --- API used by gwf
    async def communicate(self, input=None):
        await self._wait_fut()
        return self.stdout, self.stderr

    async def wait(self):
        await self._wait_fut()
        return self.returncode

    async def _wait_fut(self):
        if self.returncode is not None:
            return
        fut = self.h.loop.create_future()
        self._waiters.append(fut)
        try:
            await fut
        finally:
            if fut in self._waiters:
                self._waiters.remove(fut)

    def kill(self):
        self.kill_calls += 1
        self.h.log("kill", pid=self.pid)
        if self.returncode is None and self.death_pending is None:
            self.death_pending = signal.SIGKILL

    def terminate(self):
        self.term_calls += 1
        self.h.log("terminate", pid=self.pid)
        if self.returncode is None and self.death_pending is None:
            self.death_pending = signal.SIGTERM

    def send_signal(self, sig):
        if sig == signal.SIGKILL:
            self.kill()
        else:
            self.terminate()

    # --- adversary side
    def finish(self, code):
        assert self.returncode is None
        self.returncode = code
        for f in list(self._waiters):
            if not f.done():
                f.set_result(None)

    @property
    def live(self):
        return self.returncode is None


class RecordingDict(dict):
    def __init__(self, h):
        super().__init__()
        self.h = h

    def __setitem__(self, k, v):
        old = self.get(k)
        self.h.transitions.append((k, getattr(old, "name", None), v.name, self.h.qindex, self.h.loop.time()))
        super().__setitem__(k, v)


class FakeWriter:
    def __init__(self, conn):
        self.conn = conn

    def write(self, data):
        if self.conn["dropped"]:
            return
        self.conn["out"] += data

    async def drain(self):
        if self.conn["dropped"]:
            raise ConnectionResetError("client went away")
        if self.conn.get("stalled"):
            # the peer does not read: the transport's write buffer is full and drain() blocks until it goes away
            fut = asyncio.get_running_loop().create_future()
            self.conn.setdefault("stall_futs", []).append(fut)
            try:
                await fut
            except asyncio.CancelledError:
                raise
            raise ConnectionResetError("client went away")
        if self.conn.get("slow"):
            await asyncio.sleep(0)

    def close(self):
        self.conn["closed_by_server"] = True

    async def wait_closed(self):
        return

    def get_extra_info(self, *a, **k):
        return None

    def is_closing(self):
        return self.conn["dropped"]


class Harness:
    """One virtual run.  `case`:
        max_cores, tasks: [{deps: [idx], time_limit, start_fail, log_fail}], adv_seed,
        cancels: int (budget), bursts: bool, clients: [...] (C14 scripts)
    """

    def __init__(self, case, workdir):
        self.case = case
        self.workdir = workdir
        self.rng = random.Random(case["adv_seed"])
        self.loop = None
        self.qindex = 0
        self.events = []  # adversary + observation log
        self.transitions = []
        self.procs = []
        self.spawns = []  # dict(tid, pid, q, t, dep_states, dep_exit, live_before)
        self.spawn_attempts = {}
        self.tid_of_idx = {}
        self.idx_of_tid = {}
        self.enqueued = 0
        self.all_tids = []
        self.cancels_left = case.get("cancels", 0)
        self.cancel_log = []
        self.exc_log = []
        self.snapshots = []  # per quiescent point: (qindex, vtime, states, live pids, held)
        self.violations = []  # invariant violations found online: (prop, mech, msg, witness)
        self.ended = False
        self.conns = []
        self.max_q = case.get("max_q", 3000)
        self.current_task_ctx = None
        self.model = {}
        self.finished = None
        self.responses = []
        self.probe = None
        self.draining = None

    def log(self, kind, **kw):
        self.events.append(dict(kind=kind, q=self.qindex, t=round(self.loop.time(), 3), **kw))

    # ------------------------------------------------------------------
    def run(self):
        import logging
        import warnings

        warnings.filterwarnings("ignore", message="coroutine .* was never awaited")

        import gwf.backends.local as local

        lg = logging.getLogger("gwf")
        if not lg.handlers:
            lg.addHandler(logging.NullHandler())
        lg.propagate = False
        self.local = local
        self.loop = VLoop()
        self.loop._selector.harness = self
        self.loop.set_debug(False)
        self.loop.set_exception_handler(self._exc_handler)
        real_css = asyncio.create_subprocess_shell
        real_kill, real_killpg, real_getpgid = os.kill, os.killpg, os.getpgid
        asyncio.create_subprocess_shell = self._spawn
        os.kill = self._os_kill
        os.killpg = self._os_killpg
        os.getpgid = self._os_getpgid
        asyncio.set_event_loop(self.loop)
        try:
            self.loop.run_until_complete(self._main())
        finally:
            asyncio.create_subprocess_shell = real_css
            os.kill, os.killpg, os.getpgid = real_kill, real_killpg, real_getpgid
            try:
                # drain mode: cancel what is left and let the kill sequences finish in virtual time
                pending = [t for t in asyncio.all_tasks(self.loop) if not t.done()]
                for t in pending:
                    t.cancel()
                self.draining = 0
                if pending:
                    self.loop.run_until_complete(asyncio.gather(*pending, return_exceptions=True))
            except BaseException:
                pass
            finally:
                self.loop._selector.harness = None
                for t in asyncio.all_tasks(self.loop):
                    t._log_destroy_pending = False
            asyncio.set_event_loop(None)
            self.loop.close()
        return self

    async def _main(self):
        local = self.local
        self.finished = self.loop.create_future()
        h = self

        class RecScheduler(local.Scheduler):
            async def enqueue_task(self, name, script, working_dir, time_limit, deps):
                tid = await local.Scheduler.enqueue_task(self, name, script, working_dir, time_limit, deps)
                h.on_enqueued(tid, name, script)
                return tid

            async def cancel_task(self, tid):
                if h.case.get("clients"):
                    try:
                        st = self.task_states.get(tid)
                    except TypeError:
                        st = None
                    if st is not None:
                        h.log("cancel", tid=tid, state_at_delivery=st.name)
                        h.cancel_log.append((tid, st.name, h.qindex))
                return await local.Scheduler.cancel_task(self, tid)

        import itertools

        # small ids keep the recorded histories readable (production starts the counter at the current time)
        self.scheduler = RecScheduler(self.workdir, self.case["max_cores"], task_states=RecordingDict(self), tid_generator=itertools.count())
        self.server = local.Server(self.scheduler)
        await self.finished

    def _exc_handler(self, loop, context):
        exc = context.get("exception")
        self.exc_log.append({"message": context.get("message"), "exc": repr(exc), "q": self.qindex})

    # ------------------------------------------------------------------
    # process factory and signal interception
    async def _spawn(self, script, stdout=None, stderr=None, cwd=None, **kw):
        # which task is spawning?  the asyncio task that calls us is the scheduler's worker task of that tid
        cur = asyncio.current_task()
        tid = next((t for t, task in self.scheduler.tasks.items() if task is cur), None)
        idx = self.idx_of_tid.get(tid)
        bad_script = not isinstance(script, (str, bytes))
        tinfo = self.case["tasks"][idx] if idx is not None else {}
        self.spawn_attempts[tid] = self.spawn_attempts.get(tid, 0) + 1
        live_before = [p.pid for p in self.procs if p.live]
        states = {k: v.name for k, v in self.scheduler.task_states.items()}
        dep_tids = [self.tid_of_idx[d] for d in tinfo.get("deps", []) if d in self.tid_of_idx]
        rec = {
            "tid": tid,
            "idx": idx,
            "q": self.qindex,
            "t": self.loop.time(),
            "dep_states": {d: states.get(d) for d in dep_tids},
            "dep_exit": {d: self._natural_exit_of(d) for d in dep_tids},
            "live_before": live_before,
            "failed_to_start": bool(tinfo.get("start_fail")) or bad_script,
            "kw": sorted(kw),
        }
        self.spawns.append(rec)
        self.log("spawn", tid=tid, idx=idx, live_before=len(live_before), fail=rec["failed_to_start"])
        if bad_script:
            raise ValueError("cmd must be a string")
        if tinfo.get("start_fail"):
            raise FileNotFoundError(2, "No such file or directory", str(cwd))
        p = FakeProc(self, tid, script, cwd)
        p.tid = tid
        self.procs.append(p)
        rec["pid"] = p.pid
        return p

    def _natural_exit_of(self, tid):
        for p in self.procs:
            if getattr(p, "tid", None) == tid:
                return p.natural_exit
        return None

    def _proc_by_pid(self, pid):
        i = pid - FAKE_PID_BASE
        if 0 <= i < len(self.procs):
            return self.procs[i]
        return None

    def _os_kill(self, pid, sig):
        p = self._proc_by_pid(pid) if pid >= FAKE_PID_BASE else None
        if p is None:
            raise ProcessLookupError(pid)
        p.send_signal(sig)

    def _os_killpg(self, pgid, sig):
        return self._os_kill(pgid, sig)

    def _os_getpgid(self, pid):
        if pid >= FAKE_PID_BASE:
            return pid
        raise ProcessLookupError(pid)

    # ------------------------------------------------------------------
    # quiescent point
    def observe(self):
        states = {k: v.name for k, v in self.scheduler.task_states.items()}
        live = [p.pid for p in self.procs if p.live]
        held = []
        for tid, n in self.spawn_attempts.items():
            t = self.scheduler.tasks.get(tid)
            if t is not None and not t.done():
                held.append(tid)
        done = {tid: t.done() for tid, t in self.scheduler.tasks.items()}
        snap = {"q": self.qindex, "t": self.loop.time(), "states": states, "live": live, "held": held, "done": done}
        self.snapshots.append(snap)
        return snap

    def quiescent(self, timeout):
        if self.draining is not None:
            self.draining += 1
            if self.draining > 300:
                raise RuntimeError("drain did not finish")
            for p in self.procs:
                if p.live:
                    p.finish(-9)
                    return
            when = None
            for h in self.loop._scheduled:
                if not h._cancelled:
                    when = h._when if when is None else min(when, h._when)
            if when is None:
                raise RuntimeError("drain: nothing left to wait for")
            self.loop._vtime = max(self.loop._vtime, when)
            return
        if self.ended:
            return
        self.qindex += 1
        snap = self.observe()
        if self.qindex > self.max_q:
            self.log("abort", reason="max_q")
            self._end(aborted=True)
            return
        cands = self.candidates(timeout)
        if not cands:
            if self.case.get("clients") and self.probe is None:
                self.start_probe()
                return
            self._end()
            return
        ev = self.choose(cands)
        self.apply(ev)
        if self.case.get("bursts") and self.rng.random() < 0.25:
            more = [c for c in self.candidates(None) if c[0] in ("enqueue", "cancel") or (c[0] == "client" and c[1] != 0)]
            if more:
                self.apply(self.rng.choice(more))

    def _end(self, aborted=False):
        self.ended = True
        self.aborted = aborted
        if not self.finished.done():
            self.loop.call_soon(self.finished.set_result, None)

    def candidates(self, timeout):
        c = []
        for p in self.procs:
            if p.live:
                if p.death_pending is not None:
                    c.append(("die", p.pid))
                else:
                    c.append(("exit", p.pid))
        if self.enqueued < len(self.case["tasks"]) and not self.case.get("clients"):
            if all(d in self.tid_of_idx for d in self.case["tasks"][self.enqueued]["deps"]):
                c.append(("enqueue", self.enqueued))
                if self.cancels_left > 0:
                    c.append(("enqcancel", self.enqueued))
        if self.cancels_left > 0 and self.scheduler.tasks:
            c.append(("cancel", None))
        if timeout is not None:
            c.append(("time", None))
        for ci, conn in enumerate(self.conns_spec()):
            st = self.conn_state(ci)
            if st["pos"] < len(conn["script"]):
                c.append(("client", ci))
        return c

    def choose(self, cands):
        w = []
        bias = self.case.get("bias", {})
        for k, _ in cands:
            w.append(bias.get(k, {"exit": 3, "die": 3, "enqueue": 4, "cancel": 1.5, "time": 1.5, "client": 4, "enqcancel": 0.6}[k]))
        return self.rng.choices(cands, w)[0]

    def apply(self, ev):
        kind, arg = ev
        if kind == "exit":
            p = self._proc_by_pid(arg)
            code = self.rng.choice(self.case.get("exit_codes", [0, 0, 0, 0, 1, 2, 137]))
            p.natural_exit = code
            self.log("exit", pid=p.pid, tid=p.tid, code=code)
            p.finish(code)
        elif kind == "die":
            p = self._proc_by_pid(arg)
            self.log("die", pid=p.pid, tid=p.tid, sig=int(p.death_pending))
            p.finish(-int(p.death_pending))
        elif kind == "enqueue":
            idx = arg
            t = self.case["tasks"][idx]
            self.enqueued += 1
            deps = [self.tid_of_idx[d] for d in t["deps"] if d in self.tid_of_idx]
            self.log("enqueue", idx=idx, deps=deps)
            self.loop.create_task(self._enqueue(idx, t, deps))
        elif kind == "enqcancel":
            idx = arg
            t = self.case["tasks"][idx]
            self.enqueued += 1
            self.cancels_left -= 1
            deps = [self.tid_of_idx[d] for d in t["deps"] if d in self.tid_of_idx]
            self.log("enqueue", idx=idx, deps=deps, then_cancel=True)
            self.loop.create_task(self._enqueue_then_cancel(idx, t, deps))
        elif kind == "cancel":
            tids = sorted(self.scheduler.tasks)
            tid = self.rng.choice(tids)
            self.cancels_left -= 1
            st = self.scheduler.task_states.get(tid)
            self.log("cancel", tid=tid, state_at_delivery=getattr(st, "name", None))
            self.cancel_log.append((tid, getattr(st, "name", None), self.qindex))
            self.loop.create_task(self.scheduler.cancel_task(tid))
        elif kind == "time":
            when = None
            for h in self.loop._scheduled:
                if not h._cancelled:
                    when = h._when if when is None else min(when, h._when)
            if when is None:
                when = self.loop.time() + 1
            self.loop._vtime = max(self.loop._vtime, when)
            self.log("time", to=round(when, 3))
        elif kind == "client":
            self.client_step(arg)

    async def _enqueue(self, idx, t, deps):
        name = "n%d" % idx
        if t.get("log_fail"):
            name = "nodir/n%d" % idx  # log path in a directory that does not exist
        await self.scheduler.enqueue_task(name=name, script=self._script(idx, t), working_dir=self.workdir, time_limit=t.get("time_limit"), deps=deps)

    @staticmethod
    def _script(idx, t):
        if t.get("empty_script"):
            return ["", "  \n", "\n\n"][idx % 3]
        return "task:%d:" % idx

    async def _enqueue_then_cancel(self, idx, t, deps):
        """cancel request processed before the new task's coroutine had its first step"""
        name = "n%d" % idx
        tid = await self.scheduler.enqueue_task(name=name, script=self._script(idx, t), working_dir=self.workdir, time_limit=t.get("time_limit"), deps=deps)
        st = self.scheduler.task_states.get(tid)
        self.log("cancel", tid=tid, state_at_delivery=getattr(st, "name", None), immediate=True)
        self.cancel_log.append((tid, getattr(st, "name", None), self.qindex))
        if self.case.get("clients"):
            await self.local.Scheduler.cancel_task(self.scheduler, tid)
        else:
            await self.scheduler.cancel_task(tid)

    def on_enqueued(self, tid, name, script):
        idx = None
        for cand in (script, name):
            if isinstance(cand, str) and cand.startswith("task:"):
                try:
                    idx = int(cand.split(":")[1])
                except ValueError:
                    pass
                break
            if isinstance(cand, str) and cand.split("/")[-1][:1] == "n" and cand.split("/")[-1][1:].isdigit():
                idx = int(cand.split("/")[-1][1:])  # the harness' own tasks are named n<idx> (their script may be empty)
                break
        self.all_tids.append(tid)
        if idx is not None and idx not in self.tid_of_idx:
            self.tid_of_idx[idx] = tid
            self.idx_of_tid[tid] = idx
        self.log("enqueued", idx=idx, tid=tid)

    # ------------------------------------------------------------------
    # virtual clients (C14)
    def conns_spec(self):
        return self.case.get("clients") or []

    def conn_state(self, ci):
        while len(self.conns) <= ci:
            self.conns.append(None)
        if self.conns[ci] is None:
            reader = asyncio.StreamReader(limit=self.case.get("stream_limit", 2**16))
            st = {"pos": 0, "reader": reader, "out": b"", "dropped": False, "task": None, "eof": False, "read": 0}
            st["writer"] = FakeWriter(st)
            st["task"] = self.loop.create_task(self.server.handle_connection(reader, st["writer"]))
            self.conns[ci] = st
        return self.conns[ci]

    def client_step(self, ci):
        spec = self.conns_spec()[ci]
        st = self.conn_state(ci)
        step = spec["script"][st["pos"]]
        st["pos"] += 1
        op = step["op"]
        self.log("client", conn=ci, op=op, data=str(step.get("batch") or step.get("data"))[:80])
        if op == "send":
            # one write of the client may carry several requests (pipelining): "batch" = list of messages
            raw = b""
            for data in step.get("batch") or [step["data"]]:
                if isinstance(data, dict):
                    data = dict(data)
                    # late binding of task ids: {"$tid": k} refers to the k-th id handed out on this run
                    if "deps_idx" in data:
                        data["deps"] = [self.tid_of_idx[i] for i in data.pop("deps_idx") if i in self.tid_of_idx]
                    if "tid_idx" in data:
                        i = data.pop("tid_idx")
                        data["tid"] = self.tid_of_idx.get(i, 99999)
                    raw += (json.dumps(data) + "\n").encode()
                else:
                    raw += data.encode("latin-1") if isinstance(data, str) else bytes(data)
            if not st["eof"]:
                st["reader"].feed_data(raw)
        elif op == "stall":
            st["stalled"] = True
        elif op == "eof":
            if not st["eof"]:
                st["eof"] = True
                st["reader"].feed_eof()
        elif op == "drop":
            st["dropped"] = True
            for fut in st.get("stall_futs", []):
                if not fut.done():
                    fut.set_result(None)
            if not st["eof"]:
                st["eof"] = True
                st["reader"].set_exception(ConnectionResetError("reset by peer")) if step.get("hard") else st["reader"].feed_eof()

    def start_probe(self):
        """liveness probe: a fresh connection asks for the states, enqueues a task and asks again"""
        reader = asyncio.StreamReader()
        st = {"out": b"", "dropped": False}
        st["writer"] = FakeWriter(st)
        self.probe = st
        self.probe_states_before = {k: v.name for k, v in self.scheduler.task_states.items()}
        self.log("probe")
        for m in (
            {"__kind__": "get_task_states"},
            {"__kind__": "enqueue_task", "name": "probe", "script": 5, "working_dir": self.workdir, "time_limit": None, "deps": []},
            {"__kind__": "close"},
        ):
            reader.feed_data((json.dumps(m) + "\n").encode())
        st["task"] = self.loop.create_task(self.server.handle_connection(reader, st["writer"]))

    def responses_of(self, ci):
        st = self.conns[ci] if ci < len(self.conns) else None
        if not st:
            return []
        out = []
        for ln in st["out"].split(b"\n"):
            if ln.strip():
                try:
                    out.append(json.loads(ln))
                except ValueError:
                    out.append({"__unparsable__": ln[:80].decode("latin-1")})
        return out


def run_harness(case, workdir):
    if case.get("logs_not_dir"):
        # the project's log directory cannot be used at all: `.gwf/logs` is a regular file
        os.makedirs(os.path.join(workdir, ".gwf"), exist_ok=True)
        with open(os.path.join(workdir, ".gwf", "logs"), "w") as f:
            f.write("not a directory\n")
    else:
        os.makedirs(os.path.join(workdir, ".gwf", "logs"), exist_ok=True)
    h = Harness(case, workdir)
    h.run()
    return h


# --------------------------------------------------------------------------
# sequential reference model of the pool (C11-C13 oracle)
# --------------------------------------------------------------------------

FINAL = {"COMPLETED", "FAILED", "KILLED", "CANCELLED"}
AT_RUN = {"time_limit", "tl_str", "script_int"}  # malformed requests that only fail once the task is started
BAD = {"FAILED", "KILLED", "CANCELLED"}


def replay_model(h):
    """Replays the adversary's event log through a tiny sequential model.
    Returns per tid the set of acceptable final states, and per quiescent point the acceptable
    state sets (only for final states - non-final timing is C12's business)."""
    case = h.case
    acc = {}  # tid -> set of acceptable states "now"
    deadline = {}
    killed = set()
    deps = {}
    spawned = set()

    def classes(states):
        out = set()
        if states & {"FAILED", "KILLED"}:
            out |= {"FAILED", "KILLED"}
        if "CANCELLED" in states:
            out |= {"CANCELLED"}
        return out

    def bad_dep_classes(tid):
        out = set()
        for d in deps.get(tid, ()):
            if d in acc and acc[d] and acc[d] <= BAD:
                out |= classes(acc[d])
        return out

    def propagate():
        # a waiting task is finalised by its dependencies only once ALL of them are final (an
        # implementation finalising earlier picks a class that is contained in this union anyway)
        changed = True
        while changed:
            changed = False
            for tid, ds in deps.items():
                if acc[tid] == {"SUBMITTED"} and ds and all(d in acc and acc[d] <= FINAL for d in ds):
                    bad = bad_dep_classes(tid)
                    if bad:
                        acc[tid] = bad
                        changed = True

    for e in h.events:
        k = e["kind"]
        if k == "enqueued":
            tid = e["tid"]
            if e["idx"] is None:
                acc[tid] = {"FAILED", "KILLED"}  # accepted request the harness cannot attribute: malformed
                deps[tid] = []
                continue
            acc[tid] = {"SUBMITTED"}
            deps[tid] = [h.tid_of_idx[d] for d in case["tasks"][e["idx"]]["deps"] if d in h.tid_of_idx and h.tid_of_idx[d] != tid]
            if case["tasks"][e["idx"]].get("malformed") and case["tasks"][e["idx"]]["malformed"] not in AT_RUN:
                acc[tid] = {"FAILED", "KILLED"}
            propagate()
        elif k == "spawn":
            tid = e["tid"]
            if tid not in acc or e["idx"] is None:
                continue
            if acc[tid] <= FINAL and acc[tid]:
                continue  # spawn of a task the model already considers final: flagged by the checks
            spawned.add(tid)
            if e["fail"] or case["tasks"][e["idx"]].get("malformed") in AT_RUN:
                acc[tid] = {"FAILED", "KILLED"}
            else:
                acc[tid] = {"RUNNING"}
                tl = case["tasks"][e["idx"]].get("time_limit")
                if isinstance(tl, (int, float)) and not isinstance(tl, bool):
                    deadline[tid] = e["t"] + tl
            propagate()
        elif k == "exit":
            tid = e["tid"]
            if acc.get(tid) == {"RUNNING"}:
                if case["tasks"][h.idx_of_tid[tid]].get("log_fail"):
                    # ran to its end but its logs could not be written: failed or completed are both
                    # tolerated; the ambiguity is resolved by what gwf actually reported (so that the
                    # expectation for its dependents is well defined)
                    acc[tid] = {"FAILED", "KILLED", "COMPLETED"} if e["code"] == 0 else {"FAILED", "KILLED"}
                    actual = (h.snapshots[-1]["states"] if h.snapshots else {}).get(tid)
                    if actual in acc[tid]:
                        acc[tid] = {"FAILED", "KILLED"} if actual in ("FAILED", "KILLED") else {"COMPLETED"}
                else:
                    acc[tid] = {"COMPLETED"} if e["code"] == 0 else {"FAILED", "KILLED"}
                if e["code"] != 0 or True:
                    propagate()
        elif k == "cancel":
            tid = e["tid"]
            if acc.get(tid) and not (acc[tid] <= FINAL):
                acc[tid] = {"CANCELLED"} | (bad_dep_classes(tid) if tid not in spawned else set())
                propagate()
            elif acc.get(tid) and acc[tid] <= {"KILLED", "FAILED"} and e.get("state_at_delivery") in ("RUNNING", "SUBMITTED"):
                # the model already finalised the task (time limit fired and the kill sequence is still in
                # progress, or a dependency's kill sequence is in progress) but gwf still reports it as
                # waiting/running: "cancelled while waiting or running" - a cancel arriving now may win
                acc[tid] = acc[tid] | {"CANCELLED"}
                stack = [tid]
                while stack:
                    x = stack.pop()
                    for y, ds in deps.items():
                        if x in ds and acc.get(y) and acc[y] <= BAD and "CANCELLED" not in acc[y]:
                            acc[y] = acc[y] | {"CANCELLED"}
                            stack.append(y)
        elif k == "time":
            for tid, dl in list(deadline.items()):
                if acc.get(tid) == {"RUNNING"} and dl <= e["to"] + 1e-9:
                    acc[tid] = {"KILLED", "FAILED"}
            propagate()
    return acc, deps, spawned
