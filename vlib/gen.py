"""G — workload generators: abstract workflows, shapes/spellings, rendering to a
real workflow.py, materialising a project directory."""

import json
import os
import shutil
import tempfile

BASE_T = 1_600_000_000  # all static mtimes are BASE_T + k*10 s, whole milliseconds


# --------------------------------------------------------------------------
# DAG generation over a file pool
# --------------------------------------------------------------------------


# file names that are NOT in unicode normal form C: on Linux a name is a byte string, so these are distinct from
# (and must never be confused with) their NFC spellings
NON_NFC_PREFIX = ["re\u0301sume\u0301_", "\u212bngstrom_", "n\u0303_"]


def gen_dag(rng, n_targets=None, max_targets=8, p_noout=0.1, p_noin=0.15, max_outs=3, max_ins=4, n_sources=None, shapes=None, shuffle_names=True, p_unicode=0.2):
    """abstract workflow: list of targets with project-relative file names.
    Acyclic by construction: target i may only consume files produced by j < i or sources."""
    n = n_targets or rng.randint(1, max_targets)
    n_src = n_sources if n_sources is not None else rng.randint(1, 4)
    sources = ["src%d.txt" % i for i in range(n_src)]
    produced = []  # (file, producer index)
    targets = []
    shape = shapes or rng.choice(["random", "random", "chain", "diamond", "fan", "forest"])
    for i in range(n):
        name = "t%d" % i
        if rng.random() < p_noout and i > 0:
            outs = []
        else:
            outs = ["o%d_%d.dat" % (i, k) for k in range(rng.randint(1, max_outs))]
        ins = []
        if shape == "chain" and i > 0:
            prev = [f for f, p in produced if p == i - 1]
            if prev:
                ins.append(rng.choice(prev))
        elif shape == "diamond" and i > 0:
            if i == n - 1 and n >= 4:
                for p_ in range(1, n - 1):
                    fs = [f for f, p in produced if p == p_]
                    if fs:
                        ins.append(rng.choice(fs))
            else:
                fs = [f for f, p in produced if p == 0]
                if fs:
                    ins.append(rng.choice(fs))
        elif shape == "fan" and i > 0:
            fs = [f for f, p in produced if p == 0]
            if fs:
                ins.append(rng.choice(fs))
        elif shape == "forest":
            cand = [f for f, p in produced if p % 2 == i % 2]
            if cand and rng.random() < 0.7:
                ins.extend(rng.sample(cand, min(len(cand), rng.randint(1, 2))))
        else:
            if produced and rng.random() > p_noin:
                k = rng.randint(1, min(max_ins, len(produced)))
                ins.extend(f for f, _ in rng.sample(produced, k))
        if rng.random() < 0.5 or not ins:
            if rng.random() > p_noin:
                ins.extend(rng.sample(sources, rng.randint(1, min(2, len(sources)))))
        ins = list(dict.fromkeys(ins))
        targets.append({"name": name, "ins": ins, "outs": outs})
        produced.extend((f, i) for f in outs)
    # target names must not be correlated with the dependency order (gwf visits dependencies and
    # endpoints in NAME order): permute the names, and sometimes the definition order as well
    if shuffle_names:
        perm = ["t%d" % i for i in range(n)]
        rng.shuffle(perm)
        for t, nm in zip(targets, perm):
            t["name"] = nm
        if rng.random() < 0.5:
            rng.shuffle(targets)
    # a few files get names that are not NFC-normalised (decomposed accents, ANGSTROM SIGN)
    if p_unicode and rng.random() < p_unicode:
        files = list(sources) + [f for f, _ in produced]
        ren = {f: rng.choice(NON_NFC_PREFIX) + f for f in rng.sample(files, min(len(files), rng.randint(1, 2)))}
        sources = [ren.get(f, f) for f in sources]
        for t in targets:
            t["ins"] = [ren.get(f, f) for f in t["ins"]]
            t["outs"] = [ren.get(f, f) for f in t["outs"]]
    return {"targets": targets, "sources": sources, "shape": shape}


def shape_class(deps):
    """coarse shape label of a dependency relation name -> set(names)"""
    n = len(deps)
    multi_dep = any(len(d) >= 2 for d in deps.values())
    inv = {}
    for b, ds in deps.items():
        for a in ds:
            inv.setdefault(a, set()).add(b)
    shared = any(len(v) >= 2 for v in inv.values())
    ends = sum(1 for k in deps if k not in inv)
    edges = sum(len(d) for d in deps.values())
    return "n%s|e%s|%s%s|ends%s" % (min(n, 9), min(edges, 12), "J" if multi_dep else "-", "S" if shared else "-", min(ends, 4))


# --------------------------------------------------------------------------
# shapes (container grouping) — source expression for a list of leaf expressions
# --------------------------------------------------------------------------

EMPTY_SHAPES = ["[]", "{}", "()", "[[]]", "{'a': []}", "{'a': [], 'b': ()}", "[[], []]"]
EMPTY_TRUTHY = ["[[]]", "{'a': []}", "{'a': [], 'b': ()}", "[[], []]"]


def shape_expr(rng, leaves, kind=None):
    n = len(leaves)
    if n == 0:
        return kind if kind in EMPTY_SHAPES else rng.choice(EMPTY_SHAPES)
    kinds = ["list", "tuple", "nested", "dict", "dict_lists", "dict_empty", "mappingproxy", "chainmap"]
    if n == 1:
        kinds.append("str")
    k = kind or rng.choice(kinds)
    if k == "str" and n == 1:
        return leaves[0]
    if k == "tuple":
        return "(" + ", ".join(leaves) + ",)"
    if k == "nested":
        cut = rng.randint(0, n)
        a, b = leaves[:cut], leaves[cut:]
        inner = "[" + ", ".join(b) + "]" if b else "[]"
        return "[" + ", ".join(a + [inner]) + "]"
    if k == "dict":
        return "{" + ", ".join("'k%d': %s" % (i, x) for i, x in enumerate(leaves)) + "}"
    if k == "dict_lists":
        cut = rng.randint(0, n)
        return "{'A': [%s], 'B': [%s]}" % (", ".join(leaves[:cut]), ", ".join(leaves[cut:]))
    if k == "mappingproxy":
        return "MappingProxyType({" + ", ".join("'k%d': %s" % (i, x) for i, x in enumerate(leaves)) + "})"
    if k == "chainmap":
        cut = rng.randint(0, n)
        return "ChainMap({%s}, {%s})" % (", ".join("'a%d': %s" % (i, x) for i, x in enumerate(leaves[:cut])), ", ".join("'b%d': [%s]" % (i, x) for i, x in enumerate(leaves[cut:])))
    if k == "dict_empty":
        return "{'E': [], 'A': [%s]}" % ", ".join(leaves)
    return "[" + ", ".join(leaves) + "]"


def respell_list(rng, paths, root, p=0.25):
    """the same files, some spelled differently (./x, d/../x, absolute, absolute with '.' / '..' segments)"""
    out = []
    for x in paths:
        k = rng.random()
        if k > p or x.startswith("/"):
            out.append(x)
        elif k < p * 0.25:
            out.append("./" + x)
        elif k < p * 0.5:
            out.append("zz/../" + x)
        elif k < p * 0.75:
            out.append(root + "/./" + x)
        else:
            out.append(root + "/qq/../" + x)
    return out


def leaf_expr(spelling, as_path=False):
    return "Path(%r)" % spelling if as_path else repr(spelling)


# --------------------------------------------------------------------------
# rendering
# --------------------------------------------------------------------------


def render_workflow(targets, header="", defaults=None, wf_kwargs=""):
    """targets: list of dicts with name, ins_expr, outs_expr, spec, options (dict of
    python-expression strings), protect_expr, route ('target'|'template'|'raw')."""
    lines = ["from pathlib import Path", "from types import MappingProxyType", "from collections import ChainMap", "from gwf import Workflow, AnonymousTarget", header, ""]
    kw = wf_kwargs
    if defaults:
        kw = (kw + ", " if kw else "") + "defaults=%r" % (defaults,)
    lines.append("gwf = Workflow(%s)" % kw)
    lines.append("")
    for t in targets:
        opts = "".join(", %s=%s" % (k, v) for k, v in (t.get("options") or {}).items())
        prot = ", protect=%s" % t["protect_expr"] if t.get("protect_expr") else ""
        route = t.get("route", "target")
        if route == "target":
            lines.append(
                "gwf.target(%r, inputs=%s, outputs=%s%s%s) << %r" % (t["name"], t["ins_expr"], t["outs_expr"], prot, opts, t.get("spec", ""))
            )
        elif route == "template":
            wd = ", working_dir=%r" % t["wd_arg"] if t.get("wd_arg") is not None else ""
            topts = "{" + ", ".join("%r: %s" % (k, v) for k, v in (t.get("template_options") or {}).items()) + "}"
            prot_t = ", protect=%s" % t["protect_expr"] if t.get("protect_expr") else ""
            lines.append(
                "gwf.target_from_template(%r, AnonymousTarget(inputs=%s, outputs=%s, options=%s, spec=%r%s%s)%s)"
                % (t["name"], t["ins_expr"], t["outs_expr"], topts, t.get("spec", ""), wd, prot_t, opts)
            )
        else:
            lines.append(t["raw"])
    lines.append("")
    return "\n".join(lines)


# --------------------------------------------------------------------------
# project materialisation
# --------------------------------------------------------------------------


class Project:
    def __init__(self, root=None, prefix="gwfproj-", name="proj"):
        self.base = tempfile.mkdtemp(prefix=prefix)
        self.root = root or os.path.join(self.base, name)
        os.makedirs(self.root, exist_ok=True)
        self.simdir = os.path.join(self.base, "sim")
        self.tick_ns = 10 * 1_000_000_000  # one tick of the static mtime scale (default 10 s)

    def path(self, rel):
        return rel if rel.startswith("/") else os.path.join(self.root, rel)

    def write(self, rel, text):
        p = self.path(rel)
        os.makedirs(os.path.dirname(p), exist_ok=True)
        with open(p, "w") as f:
            f.write(text)
        return p

    def write_workflow(self, src, rel="workflow.py"):
        return self.write(rel, src)

    def write_config(self, cfg):
        return self.write(".gwfconf.json", json.dumps(cfg))

    def set_file(self, rel, tick, content=None, symlink=False, link_tick=None):
        """tick None -> ensure missing; else create with mtime BASE_T + tick*10 (whole ms).
        symlink=True: the data lives outside the project, `rel` is a symbolic link to it whose OWN
        (lstat) mtime is BASE_T + link_tick*10 - what matters to make semantics is the data's mtime."""
        p = self.path(rel)
        if tick is None:
            try:
                os.remove(p)
            except FileNotFoundError:
                pass
            return
        os.makedirs(os.path.dirname(p), exist_ok=True)
        ns = BASE_T * 1_000_000_000 + tick * self.tick_ns
        if symlink:
            real = os.path.join(self.base, "outside", rel.replace("/", "__"))
            os.makedirs(os.path.dirname(real), exist_ok=True)
            with open(real, "w") as f:
                f.write(content if content is not None else "content of %s\n" % rel)
            if os.path.lexists(p):
                os.remove(p)
            os.symlink(real, p)
            os.utime(real, ns=(ns, ns))
            lns = BASE_T * 1_000_000_000 + (link_tick if link_tick is not None else 0) * self.tick_ns
            os.utime(p, ns=(lns, lns), follow_symlinks=False)
            return
        if content is not None or not os.path.exists(p):
            with open(p, "w") as f:
                f.write(content if content is not None else "content of %s\n" % rel)
        os.utime(p, ns=(ns, ns))

    def state_files(self):
        d = os.path.join(self.root, ".gwf")
        out = {}
        if os.path.isdir(d):
            for n in os.listdir(d):
                if n.endswith(".json"):
                    try:
                        with open(os.path.join(d, n)) as f:
                            out[n] = json.load(f)
                    except ValueError:
                        out[n] = "<<unparsable>>"
        return out

    def write_state(self, name, data):
        d = os.path.join(self.root, ".gwf")
        os.makedirs(os.path.join(d, "logs"), exist_ok=True)
        with open(os.path.join(d, name), "w") as f:
            json.dump(data, f)

    def cleanup(self):
        shutil.rmtree(self.base, ignore_errors=True)

    def __enter__(self):
        return self

    def __exit__(self, *exc):
        self.cleanup()


# --------------------------------------------------------------------------
# tree snapshots
# --------------------------------------------------------------------------


def snapshot(root, skip=()):
    """relpath -> (kind, size, mtime_ns, sha1-of-content) for every file below root"""
    import hashlib

    out = {}
    for dp, dns, fns in os.walk(root):
        dns.sort()
        for fn in fns:
            p = os.path.join(dp, fn)
            rel = os.path.relpath(p, root)
            if any(rel.startswith(s) for s in skip):
                continue
            try:
                st = os.lstat(p)
                with open(p, "rb") as f:
                    h = hashlib.sha1(f.read()).hexdigest()
            except OSError:
                continue
            out[rel] = (st.st_size, st.st_mtime_ns, h)
        for dn in dns:
            rel = os.path.relpath(os.path.join(dp, dn), root)
            out[rel + "/"] = ("dir",)
    return out


def snap_diff(a, b, semantic_json=()):
    """-> {'added': [...], 'removed': [...], 'modified': [...], 'touched': [...]}
    Files in `semantic_json` are reported as modified only when their JSON value differs
    (the value is looked up by the caller through `json_vals`)."""
    added = sorted(k for k in b if k not in a)
    removed = sorted(k for k in a if k not in b)
    modified = sorted(k for k in a if k in b and len(a[k]) == 3 and a[k][2] != b[k][2])
    touched = sorted(k for k in a if k in b and len(a[k]) == 3 and a[k][2] == b[k][2] and a[k][1] != b[k][1])
    return {"added": added, "removed": removed, "modified": modified, "touched": touched}
