"""R1 — fork runner: every gwf command is its own OS process.

The child imports gwf *fresh* from the repository working tree (any gwf module
inherited from the parent is purged first), installs the audit-hook journal and
the optional failpoints, runs ``gwf.cli.main(args)`` in click's standalone mode
and exits with click's exit code.  A Python exception that click does not turn
into an error message is a *crash*: the traceback is captured and exit code 70
is used.
"""

import json
import os
import signal
import subprocess
import sys
import time

# pre-import third-party / stdlib modules so that the forked child only has to
# import gwf itself
import asyncio  # noqa: F401
import importlib.metadata  # noqa: F401
import logging
import xml.etree.ElementTree  # noqa: F401

import attrs  # noqa: F401
import click  # noqa: F401
import click_plugins  # noqa: F401

from .core import REPO

CRASH_RC = 70
GWF_SRC = os.path.join(REPO, "src")

AUDIT_EVENTS = {
    "open",
    "os.remove",
    "os.rename",
    "os.utime",
    "os.mkdir",
    "os.rmdir",
    "os.truncate",
    "os.chmod",
    "os.link",
    "os.symlink",
    "shutil.rmtree",
    "shutil.move",
    "shutil.copyfile",
    "subprocess.Popen",
    "socket.connect",
    "os.kill",
    "os.killpg",
    "os.system",
    "os.exec",
    "os.posix_spawn",
}


class GwfResult:
    def __init__(self, rc, out, err, audit, wall, timed_out=False):
        self.rc = rc
        self.out = out
        self.err = err
        self.audit = audit
        self.wall = wall
        self.timed_out = timed_out

    @property
    def crashed(self):
        """True when gwf died with an unhandled exception (or by a signal we did not send)."""
        return self.rc == CRASH_RC or (self.rc is not None and self.rc < 0 and not self.timed_out)

    @property
    def traceback(self):
        i = self.err.rfind("Traceback (most recent call last)")
        return self.err[i:] if i >= 0 else ""

    @property
    def exc_type(self):
        tb = self.traceback.strip().splitlines()
        if not tb:
            return None
        last = tb[-1]
        return last.split(":")[0].strip()

    def gwf_frames(self):
        """function names of the frames inside gwf's source, outermost first"""
        frames = []
        lines = self.traceback.splitlines()
        for ln in lines:
            ln = ln.strip()
            if ln.startswith('File "') and "/gwf/" in ln and ", in " in ln:
                frames.append(ln.rsplit(", in ", 1)[1])
        return frames

    def brief(self):
        return {
            "rc": self.rc,
            "out": self.out[-1500:],
            "err": self.err[-2500:],
            "timed_out": self.timed_out,
        }


def _mode_writes(mode, flags):
    if isinstance(mode, str):
        return any(c in mode for c in "wax+")
    if isinstance(flags, int):
        return bool(flags & (os.O_WRONLY | os.O_RDWR | os.O_CREAT | os.O_TRUNC | os.O_APPEND))
    return False


def _install_fs_killpoint(fp):
    """fp = {"kind": "kill_at_fs_event", "contains": [...substrings...], "nth": n}: the process is killed
    right BEFORE the n-th mutating file-system operation (open for writing, rename/replace, remove)
    whose path contains one of the substrings."""
    pid = os.getpid()
    state = {"n": 0}

    def hook(event, args):
        if os.getpid() != pid or event not in ("open", "os.rename", "os.remove", "os.truncate"):
            return
        try:
            if event == "open":
                path, mode, flags = args
                if isinstance(path, int) or not _mode_writes(mode, flags):
                    return
                paths = [os.fspath(path)]
            elif event == "os.rename":
                paths = [os.fspath(args[0]), os.fspath(args[1])]
            else:
                paths = [os.fspath(args[0])]
            paths = [p.decode("utf-8", "replace") if isinstance(p, bytes) else p for p in paths]
        except Exception:
            return
        if any(c in p for c in fp["contains"] for p in paths):
            state["n"] += 1
            if state["n"] == fp["nth"]:
                os._exit(137)

    sys.addaudithook(hook)


def _install_kill_after_replace(fp):
    """fp = {"kind": "kill_after_replace", "contains": [...], "nth": n}: the process is killed right AFTER the
    n-th os.replace/os.rename whose destination contains one of the substrings has been carried out
    (whatever the program still held in unflushed buffers at that moment is lost)."""
    state = {"n": 0}
    real = {"replace": os.replace, "rename": os.rename}

    def wrap(name):
        def f(src, dst, *a, **kw):
            r = real[name](src, dst, *a, **kw)
            try:
                d = os.fspath(dst)
                d = d.decode("utf-8", "replace") if isinstance(d, bytes) else d
            except TypeError:
                d = ""
            if any(c in d for c in fp["contains"]):
                state["n"] += 1
                if state["n"] == fp["nth"]:
                    os._exit(137)
            return r

        return f

    os.replace = wrap("replace")
    os.rename = wrap("rename")


def _install_audit(fd, utime_delay):
    pid = os.getpid()

    def hook(event, args):
        if event not in AUDIT_EVENTS:
            return
        if os.getpid() != pid:
            return
        try:
            if event == "open":
                path, mode, flags = args
                if not _mode_writes(mode, flags):
                    return
                if isinstance(path, int):
                    return
                rec = {"ev": "open", "path": os.fspath(path), "mode": mode, "flags": flags}
            elif event == "subprocess.Popen":
                exe, argv, cwd, env = args
                rec = {"ev": event, "exe": os.fspath(exe) if exe else None, "argv": [str(a) for a in argv]}
            elif event == "socket.connect":
                rec = {"ev": event, "addr": repr(args[1])}
            else:
                rec = {"ev": event, "args": [_s(a) for a in args]}
            if isinstance(rec.get("path"), bytes):
                rec["path"] = rec["path"].decode("utf-8", "replace")
            os.write(fd, (json.dumps(rec) + "\n").encode())
            if utime_delay and (event == "os.utime" or (event == "open" and isinstance(args[2], int) and args[2] & os.O_CREAT and not isinstance(args[1], str))):
                time.sleep(utime_delay)
        except Exception:
            pass

    sys.addaudithook(hook)


def _s(a):
    if isinstance(a, bytes):
        return a.decode("utf-8", "replace")
    if isinstance(a, (str, int, float)) or a is None:
        return a
    try:
        return os.fspath(a)
    except TypeError:
        return repr(a)


class _KillingFile:
    """Proxy of a text file that kills the process after `limit` characters."""

    def __init__(self, f, limit):
        self._f = f
        self._limit = limit
        self._n = 0
        if limit == 0:
            f.flush()
            os._exit(137)

    def write(self, s):
        room = self._limit - self._n
        if len(s) >= room:
            self._f.write(s[:room])
            self._f.flush()
            os._exit(137)
        self._n += len(s)
        return self._f.write(s)

    def __getattr__(self, name):
        return getattr(self._f, name)

    def __enter__(self):
        return self

    def __exit__(self, *exc):
        if self._limit == -1:  # kill after all bytes, before close returns
            self._f.flush()
            os._exit(137)
        return self._f.__exit__(*exc)

    def __iter__(self):
        return iter(self._f)


def _install_failpoint(fp):
    """fp = {"kind": "kill_in_write", "suffix": "...", "nth": 1, "after": k | "half" | "all"}
            {"kind": "raise_in_write", ...}
    """
    import builtins

    real_open = builtins.open
    state = {"n": 0}

    def proxy_open(file, mode="r", *a, **kw):
        f = real_open(file, mode, *a, **kw)
        try:
            p = os.fspath(file) if not isinstance(file, int) else ""
        except TypeError:
            p = ""
        if isinstance(p, str) and (p.endswith(fp["suffix"]) or p.endswith(fp["suffix"] + ".tmp")) and any(c in mode for c in "wa+"):
            state["n"] += 1
            if state["n"] == fp.get("nth", 1):
                after = fp["after"]
                if after == "all":
                    return _KillingFile(f, -1)
                if after == "half":
                    return _KillingFile(f, int(fp.get("half_len", 8)))
                return _KillingFile(f, int(after))
        return f

    builtins.open = proxy_open

_LINE_FP = {}


def _install_line_failpoint(fp, afd):
    """fp = {"kind": "line", "action": "kill" | "interrupt" | "count", "nth": n, "arm": [...argv0 basenames...]}
    Source-free failpoint at statement granularity (sys.monitoring LINE events): once the process has
    issued its first command whose basename is in `arm` (empty = armed from the start), every statement
    executed in gwf's own source files is counted; at the n-th one the process is killed (`kill`), or a
    KeyboardInterrupt is raised there as a Ctrl-C would (`interrupt`).  The site is written to the audit
    journal first ({"ev": "linefp", ...}); the total count is written at process end ({"ev": "linecount"})."""
    mon = sys.monitoring
    tool = mon.PROFILER_ID
    try:
        mon.use_tool_id(tool, "verif-linefp")
    except ValueError:
        pass
    st = {"n": 0, "armed": not fp.get("arm"), "fired": False, "afd": afd, "sites": set()}
    _LINE_FP.update(st=st, fp=fp)
    pid = os.getpid()
    src = GWF_SRC + os.sep

    def on_line(code, line):
        if not code.co_filename.startswith(src):
            return mon.DISABLE
        if st["fired"] or os.getpid() != pid:
            return None
        st["n"] += 1
        if st["n"] == fp.get("nth") and fp.get("action") in ("kill", "interrupt"):
            st["fired"] = True
            rec = {"ev": "linefp", "action": fp["action"], "file": code.co_filename[len(src):], "line": line, "func": code.co_name, "n": st["n"]}
            try:
                os.write(afd, (json.dumps(rec) + "\n").encode())
            except Exception:
                pass
            if fp["action"] == "kill":
                os._exit(137)
            mon.set_events(tool, 0)
            raise KeyboardInterrupt()
        return None

    mon.register_callback(tool, mon.events.LINE, on_line)

    def arm():
        if not st["armed"]:
            st["armed"] = True
            mon.set_events(tool, mon.events.LINE)

    if st["armed"]:
        mon.set_events(tool, mon.events.LINE)
    elif fp["arm"] == "socket.connect":

        def hook(event, args):
            if event == "socket.connect" and not st["armed"] and os.getpid() == pid:
                arm()

        sys.addaudithook(hook)
    else:
        names = set(fp["arm"])

        def hook(event, args):
            if event == "subprocess.Popen" and not st["armed"] and os.getpid() == pid:
                try:
                    a0 = os.path.basename(str(args[1][0]))
                except Exception:
                    return
                if a0 in names:
                    arm()

        sys.addaudithook(hook)


def _line_fp_report():
    st = _LINE_FP.get("st")
    if st:
        try:
            os.write(st["afd"], (json.dumps({"ev": "linecount", "n": st["n"], "fired": st["fired"], "armed": st["armed"]}) + "\n").encode())
        except Exception:
            pass


def run_gwf(
    args,
    cwd,
    env=None,
    stdin=None,
    audit=True,
    failpoint=None,
    timeout=60,
    utime_delay=0.0,
    pty_stdout=False,
    workdir=None,
    interact=None,
    cwd_on_path=False,
    nofile=None,
):
    """Run `gwf <args>` as a forked child.  env: full environment for the child.
    interact = {"wait_for": text, "then": callable, "answer": "y\\n"}: stdin is a FIFO; once `text` has appeared on
    the child's stdout the callable runs (the world changes while gwf waits at its prompt), then the answer is sent."""
    import tempfile

    tmpd = tempfile.mkdtemp(prefix="gwfrun-", dir=workdir)
    outp, errp, audp, inp = (os.path.join(tmpd, n) for n in ("out", "err", "audit", "in"))
    ifd = None
    if interact:
        os.mkfifo(inp)
        ifd = os.open(inp, os.O_RDWR | os.O_NONBLOCK)  # never blocks; keeps the FIFO open until we answer
    else:
        with open(inp, "w") as f:
            f.write(stdin or "")
    sys.stdout.flush()
    sys.stderr.flush()
    master = slave = None
    if pty_stdout:
        import pty

        master, slave = pty.openpty()
    t0 = time.time()
    pid = os.fork()
    if pid == 0:
        rc = CRASH_RC
        try:
            os.setsid()
            fi = os.open(inp, os.O_RDONLY)
            fo = slave if pty_stdout else os.open(outp, os.O_WRONLY | os.O_CREAT | os.O_TRUNC)
            fe = os.open(errp, os.O_WRONLY | os.O_CREAT | os.O_TRUNC)
            os.dup2(fi, 0)
            os.dup2(fo, 1)
            os.dup2(fe, 2)
            if master is not None:
                os.close(master)
            sys.stdin = open(0, "r", closefd=False, encoding="utf-8", errors="replace")
            sys.stdout = open(1, "w", closefd=False, encoding="utf-8", errors="replace")
            sys.stderr = open(2, "w", closefd=False, encoding="utf-8", errors="replace")
            os.chdir(cwd)
            if env is not None:
                os.environ.clear()
                os.environ.update(env)
            for m in list(sys.modules):
                if m == "gwf" or m.startswith("gwf."):
                    del sys.modules[m]
            for m in ("workflow", "templates"):
                sys.modules.pop(m, None)
            root = logging.getLogger()
            for h in list(root.handlers):
                root.removeHandler(h)
            if GWF_SRC not in sys.path:
                sys.path.insert(0, GWF_SRC)
            if nofile:
                import resource

                resource.setrlimit(resource.RLIMIT_NOFILE, (nofile, resource.getrlimit(resource.RLIMIT_NOFILE)[1]))  # a modest `ulimit -n`
            if cwd_on_path:
                # as with `python -c "from gwf.cli import main; main()"` / `python -m ...`: the invoking directory
                # is the first entry of the module search path
                sys.path.insert(0, "")
            signal.signal(signal.SIGALRM, signal.SIG_DFL)
            signal.alarm(0)
            sys.argv = ["gwf"] + list(args)
            if failpoint and failpoint.get("kind") == "kill_at_fs_event":
                _install_fs_killpoint(failpoint)
            elif failpoint and failpoint.get("kind") == "kill_after_replace":
                _install_kill_after_replace(failpoint)
            elif failpoint and failpoint.get("kind") == "line":
                pass  # installed below (needs the audit journal)
            elif failpoint:
                _install_failpoint(failpoint)
            if audit or (failpoint and failpoint.get("kind") == "line"):
                afd = os.open(audp, os.O_WRONLY | os.O_CREAT | os.O_APPEND)
                _install_audit(afd, utime_delay)
            if failpoint and failpoint.get("kind") == "line":
                _install_line_failpoint(failpoint, afd)
            import gwf.cli

            try:
                gwf.cli.main(args=list(args), prog_name="gwf")
                rc = 0
            except SystemExit as e:
                c = e.code
                rc = c if isinstance(c, int) else (0 if c is None else 1)
        except BaseException:
            import traceback

            try:
                traceback.print_exc()
            except BaseException:
                pass
            rc = CRASH_RC
        finally:
            try:
                sys.stdout.flush()
                sys.stderr.flush()
            except BaseException:
                pass
            _line_fp_report()
            os._exit(rc & 0xFF)

    # parent
    if slave is not None:
        os.close(slave)
    pty_chunks = []
    timed_out = False
    rc = None
    deadline = t0 + timeout
    answered = False
    while True:
        if ifd is not None and not answered:
            try:
                with open(outp, errors="replace") as fh:
                    seen = interact["wait_for"] in fh.read()
            except FileNotFoundError:
                seen = False
            if seen:
                answered = True
                try:
                    interact["then"]()
                finally:
                    os.write(ifd, interact.get("answer", "").encode())
                    os.close(ifd)  # the only writer: the child reads the answer, then end-of-file
                    ifd = None
        if master is not None:
            import select

            r, _, _ = select.select([master], [], [], 0.02)
            if r:
                try:
                    d = os.read(master, 65536)
                    if d:
                        pty_chunks.append(d)
                except OSError:
                    pass
        wpid, status = os.waitpid(pid, os.WNOHANG)
        if wpid == pid:
            rc = os.waitstatus_to_exitcode(status)
            break
        if time.time() > deadline:
            timed_out = True
            try:
                os.killpg(pid, signal.SIGKILL)
            except OSError:
                pass
            _, status = os.waitpid(pid, 0)
            rc = os.waitstatus_to_exitcode(status)
            break
        if master is None:
            time.sleep(0.003)
    if master is not None:
        import select

        while True:
            r, _, _ = select.select([master], [], [], 0.05)
            if not r:
                break
            try:
                d = os.read(master, 65536)
            except OSError:
                break
            if not d:
                break
            pty_chunks.append(d)
        os.close(master)

    def rd(p):
        try:
            with open(p, errors="replace") as f:
                return f.read()
        except FileNotFoundError:
            return ""

    out = b"".join(pty_chunks).decode("utf-8", "replace") if pty_stdout else rd(outp)
    err = rd(errp)
    events = []
    for ln in rd(audp).splitlines():
        try:
            events.append(json.loads(ln))
        except ValueError:
            pass
    if ifd is not None:
        os.close(ifd)
    subprocess.call(["rm", "-rf", tmpd])
    res_ = GwfResult(rc, out, err, events, time.time() - t0, timed_out)
    res_.prompt_seen = answered
    return res_


def run_gwf_real(args, cwd, env, stdin=None, timeout=120):
    """The real console script in a fresh interpreter (cross-check of the fork runner)."""
    t0 = time.time()
    try:
        p = subprocess.run(
            [os.path.join(os.path.dirname(sys.executable), "gwf")] + list(args),
            cwd=cwd,
            env=env,
            input=stdin or "",
            capture_output=True,
            text=True,
            timeout=timeout,
        )
        return GwfResult(p.returncode, p.stdout, p.stderr, [], time.time() - t0)
    except subprocess.TimeoutExpired as e:
        return GwfResult(None, e.stdout or "", e.stderr or "", [], time.time() - t0, True)


def base_env(path_dirs=(), extra=None):
    env = {
        "PATH": ":".join(list(path_dirs) + ["/usr/bin", "/bin"]),
        "HOME": "/nonexistent",
        "LANG": "C.UTF-8",
        "LC_ALL": "C.UTF-8",
        "PYTHONDONTWRITEBYTECODE": "1",
        "PYTHONHASHSEED": os.environ.get("PYTHONHASHSEED", "0"),
    }
    if extra:
        env.update(extra)
    return env
