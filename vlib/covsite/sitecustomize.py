import os
import sys

if os.environ.get("VERIF_COV"):
    sys.path.insert(0, os.path.dirname(os.path.dirname(os.path.dirname(os.path.abspath(__file__)))))
    try:
        from vlib import cov

        cov.install()
    except Exception:
        pass
    finally:
        sys.path.pop(0)
