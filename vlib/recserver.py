"""A tiny recording stand-in for the worker pool's line protocol (thread based)."""

import json
import socket
import threading
import time


class RecServer:
    def __init__(self, first_id=None, fault=None):
        """first_id: None = like gwf's own pool (b14ff27), ids count up from the current time in milliseconds.
        fault = {"nth": k, "kind": "drop" | "garbage" | "wrong_kind" | "reset"} applied to the k-th enqueue_task"""
        self.fault = fault
        self.enqueues = 0
        self.srv = socket.socket()
        self.srv.bind(("127.0.0.1", 0))
        self.srv.listen(16)
        self.port = self.srv.getsockname()[1]
        self.log = []
        self.connections = 0
        self.tasks = {}
        self.next = int(time.time() * 1000) if first_id is None else first_id
        self.stop = threading.Event()
        self.th = threading.Thread(target=self._serve, daemon=True)
        self.th.start()

    def _serve(self):
        self.srv.settimeout(0.2)
        while not self.stop.is_set():
            try:
                conn, _ = self.srv.accept()
            except socket.timeout:
                continue
            except OSError:
                break
            self.connections += 1
            f = conn.makefile("rwb")
            try:
                while True:
                    line = f.readline()
                    if not line:
                        break
                    msg = json.loads(line)
                    self.log.append(msg)
                    k = msg.get("__kind__")
                    if k == "enqueue_task":
                        self.enqueues += 1
                        if self.fault and self.fault["nth"] == self.enqueues:
                            kind = self.fault["kind"]
                            self.log.append({"__fault__": kind, "name": msg.get("name")})
                            if kind == "garbage":
                                f.write(b"@@garbage@@\n")
                                f.flush()
                                continue
                            if kind == "wrong_kind":
                                f.write((json.dumps({"__kind__": "error", "message": "no"}) + "\n").encode())
                                f.flush()
                                continue
                            if kind == "reset":
                                import struct

                                conn.setsockopt(socket.SOL_SOCKET, socket.SO_LINGER, struct.pack("ii", 1, 0))
                            break  # drop / reset: the connection goes away without an answer
                        tid = self.next
                        self.next += 1
                        self.tasks[tid] = {"name": msg["name"], "deps": msg["deps"], "state": "SUBMITTED"}
                        f.write((json.dumps({"__kind__": "task_enqueued", "tid": tid}) + "\n").encode())
                        f.flush()
                    elif k == "get_task_states":
                        f.write((json.dumps({"__kind__": "task_states", "tasks": {str(t): v["state"] for t, v in self.tasks.items()}}) + "\n").encode())
                        f.flush()
                    elif k == "close":
                        break
            except (OSError, ValueError):
                pass
            finally:
                try:
                    f.close()
                except OSError:
                    pass
                conn.close()

    def close(self):
        self.stop.set()
        self.th.join(timeout=2)
        self.srv.close()

    def __enter__(self):
        return self

    def __exit__(self, *exc):
        self.close()
