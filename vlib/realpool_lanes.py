"""R4 lanes: real `gwf workers` process, real bash jobs (end-to-end lanes of C12, C13, C14)."""

import os
import random
import time

from . import cli, gen, realpool
from .core import Inconclusive, Result


def _journal_lines(path):
    try:
        with open(path) as f:
            return [ln.split() for ln in f.read().splitlines() if ln.strip()]
    except FileNotFoundError:
        return []


def marker_pids(marker):
    out = []
    for d in os.listdir("/proc"):
        if d.isdigit():
            try:
                with open("/proc/%s/cmdline" % d, "rb") as f:
                    if marker.encode() in f.read():
                        out.append(int(d))
            except OSError:
                pass
    return out


def run_real_c12(case):
    """overlap of start/end journal intervals never exceeds the number of workers"""
    res = Result()
    rng = random.Random(case["seed"])
    cores = case["cores"]
    n = case["n"]
    with gen.Project() as proj:
        J = os.path.join(proj.base, "journal.txt")
        ts = []
        # t0 fails -> its dependents are skipped (each skip used to add a core); then independent tasks
        def spec(name, rc=0, dur=0.35):
            return 'echo "start %s $$ $(date +%%s%%N)" >> %s\nsleep %s\necho "end %s $$ $(date +%%s%%N)" >> %s\nexit %d\n' % (name, J, dur, name, J, rc)

        ts.append({"name": "bad", "ins_expr": "[]", "outs_expr": "['bad.out']", "spec": spec("bad", 1, 0.2), "route": "target"})
        nskip = rng.randint(2, 4)
        for i in range(nskip):
            ts.append({"name": "skip%d" % i, "ins_expr": "['bad.out']", "outs_expr": "['skip%d.out']" % i, "spec": spec("skip%d" % i), "route": "target"})
        for i in range(n):
            ts.append({"name": "w%d" % i, "ins_expr": "[]", "outs_expr": "['w%d.out']" % i, "spec": spec("w%d" % i, 0, rng.choice([0.3, 0.4, 0.5])), "route": "target"})
        proj.write_workflow(gen.render_workflow(ts))
        with realpool.Pool(proj, ncores=cores) as pool:
            env = cli.env_for(None, ())
            r = cli.gwf(proj.root, ["run", "bad"] + ["skip%d" % i for i in range(nskip)], env, audit=False)
            if r.rc != 0:
                res.violation("crash", "gwf -b local run failed", **cli.crash_witness(r))
                return res
            pool.wait_states(lambda st: len(st) == 1 + nskip and all(v in ("FAILED", "COMPLETED", "CANCELLED", "KILLED") for v in st.values()), timeout=30)
            r = cli.gwf(proj.root, ["run"] + ["w%d" % i for i in range(n)], env, audit=False)
            if r.rc != 0:
                res.violation("crash", "gwf -b local run failed", **cli.crash_witness(r))
                return res
            ok = pool.wait_states(lambda st: len(st) == 1 + nskip + n and all(v in ("FAILED", "COMPLETED", "CANCELLED", "KILLED") for v in st.values()), timeout=60)
            if not ok:
                raise Inconclusive("real pool did not finish in time: %s" % pool.states())
        # --- a core is only free when the processes of the task that held it are gone: tasks whose shell has
        # exited but whose background child is alive (time limit), and tasks with a child that ignores SIGTERM
        # (cancel), each followed by a queued task on a ONE-core pool
        scen = [
            ("bg-timeout", "sleep @M@ &\necho started\nexit 0\n", 1, False),
            ("term-ignoring-cancel", "( trap '' TERM; exec sleep @M@ )\necho done\n", None, True),
            ("bg-cancel", "sleep @M@ &\necho started\nexit 0\n", None, True),
        ]
        name, script, tl, do_cancel = scen[case["seed"] % len(scen)]
        uniq = "%05d%04d" % (os.getpid() % 100000, int(time.time() * 10) % 10000)
        marker = "30%d.%06d%s" % (4 + case["seed"] % 3, rng.randrange(10**6), uniq)
        with gen.Project() as proj2:
            J2 = os.path.join(proj2.base, "j2.txt")
            proj2.write_workflow("from gwf import Workflow\ngwf = Workflow()\n")
            with realpool.Pool(proj2, ncores=1) as pool:
                ta = pool.raw_enqueue("holder", script.replace("@M@", marker), proj2.root, time_limit=tl, deps=[])
                pool.wait_states(lambda st: st.get(ta) == "RUNNING", timeout=20)
                time.sleep(0.5)
                tb = pool.raw_enqueue("next", 'echo "start next $$ $(date +%%s%%N)" >> %s\nsleep 1.5\n' % J2, proj2.root, time_limit=None, deps=[])
                if do_cancel:
                    c = pool.client()
                    c.send("cancel_task", tid=ta)
                    c.close()
                # the moment the queued task starts, nothing of the holder may be alive any more
                t0 = time.time()
                started = False
                while time.time() - t0 < 40:
                    if _journal_lines(J2):
                        started = True
                        break
                    time.sleep(0.02)
                alive = marker_pids(marker)
                res.mon("real_intervals")
                res.mon("handover_checked")
                if not started:
                    st = pool.states()
                    if st.get(ta) in ("CANCELLED", "KILLED", "FAILED", "COMPLETED"):
                        res.violation("idle-core", "scenario %s: the queued task never started although the holder is %s" % (name, st.get(ta)), states=st)
                    else:
                        raise Inconclusive("scenario %s: holder still %s after 40 s" % (name, st.get(ta)))
                elif alive:
                    res.violation("too-many-live", "scenario %s on a 1-core pool: the next task started while process(es) %s of the previous task were still alive" % (name, alive), states=pool.states())
                for p in marker_pids(uniq):
                    try:
                        os.kill(p, 9)
                    except OSError:
                        pass
        ev = []
        for parts in _journal_lines(J):
            if len(parts) == 4:
                ev.append((int(parts[3]), 0 if parts[0] == "end" else 1, parts[1]))
        ev.sort()
        live = 0
        worst = 0
        for t, kind, name in ev:
            if kind == 1:
                live += 1
                worst = max(worst, live)
            else:
                live -= 1
        nint = sum(1 for e in ev if e[1] == 1)
        res.mon("real_intervals", nint)
        if worst > cores:
            res.violation("too-many-live", "real pool with %d workers ran %d job scripts at the same time (after %d skipped dependents)" % (cores, worst, nskip), journal=ev[:60])
        if nint != n + 1:
            res.violation("real-missing-runs", "expected %d started scripts, journal has %d" % (n + 1, nint), journal=ev[:60])
        res.sig = ("real", cores, n, nskip)
        res.nontrivial = True
    # ---- the configured number of workers counts, not the number of CPUs the pool process happens to be allowed on:
    # `gwf workers -n 3` pinned to one CPU still runs three (sleeping) tasks side by side
    if case["seed"] % 2 == 0:
        with gen.Project() as proj3:
            proj3.write_workflow("from gwf import Workflow\ngwf = Workflow()\n")
            with realpool.Pool(proj3, ncores=3, affinity={sorted(os.sched_getaffinity(0))[0]}) as pool3:
                ids3 = [pool3.raw_enqueue("p%d" % i, "sleep 3", proj3.root) for i in range(3)]
                ok3 = pool3.wait_states(lambda st: all(st.get(t_) == "RUNNING" for t_ in ids3), timeout=2.5)
                res.mon("pinned_pool_checked")
                if not ok3:
                    res.violation("idle-core", "a pool started with -n 3 but pinned to one CPU runs %s: configured cores stay idle while ready tasks wait" % sorted(pool3.states().values()))
    return res


def run_real_c13(case):
    res = Result()
    rng = random.Random(case["seed"])
    with gen.Project() as proj:
        uniq = "%05d%04d" % (os.getpid() % 100000, int(time.time() * 10) % 10000)  # never equal to a leftover of an earlier run
        marker = "300.%06d%s" % (rng.randrange(10**6), uniq)
        marker2 = "301.%06d%s" % (rng.randrange(10**6), uniq)
        big = 200_000
        ts = [
            {"name": "big", "ins_expr": "[]", "outs_expr": "['big.out']", "spec": "head -c %d /dev/zero | tr '\\0' 'o'\nhead -c %d /dev/zero | tr '\\0' 'e' >&2\necho done > big.out\n" % (big, big), "route": "target"},
            {"name": "bad", "ins_expr": "[]", "outs_expr": "['bad.out']", "spec": "echo partial\necho oops >&2\nexit 3\n", "route": "target"},
            {"name": "afterbad", "ins_expr": "['bad.out']", "outs_expr": "['afterbad.out']", "spec": "echo x > afterbad.out\n", "route": "target"},
            {"name": "slow", "ins_expr": "[]", "outs_expr": "['slow.out']", "spec": "sleep %s &\nsleep %s\nwait\n" % (marker, marker), "route": "target"},
            {"name": "afterslow", "ins_expr": "['slow.out']", "outs_expr": "['afterslow.out']", "spec": "echo x > afterslow.out\n", "route": "target"},
        ]
        proj.write_workflow(gen.render_workflow(ts))
        with realpool.Pool(proj, ncores=case["cores"]) as pool:
            env = cli.env_for(None, ())
            r = cli.gwf(proj.root, ["run"], env, audit=False)
            if r.rc != 0:
                res.violation("crash", "gwf -b local run failed", **cli.crash_witness(r))
                return res
            tid = proj.state_files().get("local-backend-tracked.json", {})
            ok = pool.wait_states(lambda st: st.get(tid["big"]) == "COMPLETED" and st.get(tid["bad"]) == "FAILED" and st.get(tid["slow"]) == "RUNNING" and st.get(tid["afterbad"]) not in ("SUBMITTED", "RUNNING"), timeout=30)
            st = pool.states()
            res.mon("real_tasks", len(st))
            if not ok:
                res.violation("real-wrong-state", "real pool states %s; expected big COMPLETED, bad FAILED, afterbad FAILED, slow RUNNING" % {k: st.get(v) for k, v in tid.items()})
            if st.get(tid["afterbad"]) not in ("FAILED", "KILLED"):
                res.violation("real-wrong-state", "dependent of a failed task is %s" % st.get(tid["afterbad"]))
            # complete logs
            for ext, ch in ((".stdout", b"o"), (".stderr", b"e")):
                p = os.path.join(proj.root, ".gwf", "logs", "big" + ext)
                try:
                    data = open(p, "rb").read()
                except FileNotFoundError:
                    data = b""
                res.mon("logs_checked")
                if data != ch * big:
                    res.violation("log-incomplete", "big%s holds %d bytes (%r...), the job wrote %d" % (ext, len(data), data[:20], big))
            r = cli.gwf(proj.root, ["logs", "--no-pager", "bad"], env, audit=False)
            if "partial" not in r.out:
                res.violation("log-incomplete", "gwf logs bad does not show the output of the failed job: %r" % r.out[:200])
            # a job may print anything, also bytes that are not UTF-8: it completed, and its logs hold exactly those bytes
            tb = pool.raw_enqueue("binout", "printf '\\377\\376caf\\351\\n'\nprintf '\\200\\201\\n' >&2\n", proj.root, time_limit=None, deps=[])
            pool.wait_states(lambda st: st.get(tb) in ("COMPLETED", "FAILED", "KILLED"), timeout=20)
            res.mon("logs_checked")
            if pool.states().get(tb) != "COMPLETED":
                res.violation("real-wrong-state", "a task that printed non-UTF-8 bytes and exited 0 is %s" % pool.states().get(tb))
            else:
                for ext, want_b in ((".stdout", b"\xff\xfecaf\xe9\n"), (".stderr", b"\x80\x81\n")):
                    try:
                        got_b = open(os.path.join(proj.root, ".gwf", "logs", "binout" + ext), "rb").read()
                    except FileNotFoundError:
                        got_b = None
                    if got_b != want_b:
                        res.violation("log-incomplete", "binout%s holds %r, the job wrote %r" % (ext, got_b, want_b))
            # cancel the slow task: it and its children must be gone
            if not marker_pids(marker):
                raise Inconclusive("marker processes not found before cancel")
            cli.gwf(proj.root, ["cancel", "slow"], env, audit=False)
            pool.wait_states(lambda st: st.get(tid["slow"]) == "CANCELLED" and st.get(tid["afterslow"]) == "CANCELLED", timeout=30)
            st = pool.states()
            if st.get(tid["slow"]) != "CANCELLED" or st.get(tid["afterslow"]) != "CANCELLED":
                res.violation("real-wrong-state", "after cancel: slow=%s afterslow=%s" % (st.get(tid["slow"]), st.get(tid["afterslow"])))
            time.sleep(2.0)
            left = marker_pids(marker)
            res.mon("orphans_checked")
            if left:
                res.violation("orphan-process", "2 s after the cancelled task became final, %d of its processes are still running (pids %s)" % (len(left), left))
                for p in left:
                    try:
                        os.kill(p, 9)
                    except OSError:
                        pass
            # time limit with children
            t2 = pool.raw_enqueue("tl", "sleep %s &\nsleep %s\nwait\n" % (marker2, marker2), proj.root, time_limit=1, deps=[])
            pool.wait_states(lambda st: st.get(t2) == "KILLED", timeout=30)
            if pool.states().get(t2) != "KILLED":
                res.violation("real-wrong-state", "task exceeding its time limit is %s" % pool.states().get(t2))
            time.sleep(2.0)
            left = marker_pids(marker2)
            res.mon("orphans_checked")
            if left:
                res.violation("orphan-process", "2 s after the timed-out task became final, %d of its processes are still running (pids %s)" % (len(left), left))
                for p in left:
                    try:
                        os.kill(p, 9)
                    except OSError:
                        pass
            # the shell has exited but a background child still holds the output pipes: the task is still
            # RUNNING; cancelling it now must take the child down too
            marker3 = "302.%06d%s" % (rng.randrange(10**6), uniq)
            t5 = pool.raw_enqueue("bgchild", "sleep %s &\necho started\nexit 0\n" % marker3, proj.root, time_limit=None, deps=[])
            pool.wait_states(lambda st: st.get(t5) == "RUNNING", timeout=15)
            time.sleep(0.6)
            if pool.states().get(t5) == "RUNNING" and marker_pids(marker3):
                c = pool.client()
                c.send("cancel_task", tid=t5)
                c.close()
                pool.wait_states(lambda st: st.get(t5) == "CANCELLED", timeout=20)
                time.sleep(2.0)
                left = marker_pids(marker3)
                res.mon("orphans_checked")
                if left:
                    res.violation("orphan-process", "2 s after cancelling a task whose shell had exited but whose background child was alive, the child still runs (pids %s)" % left)
                    for p in left:
                        try:
                            os.kill(p, 9)
                        except OSError:
                            pass
            # the same with a time limit
            marker4 = "303.%06d%s" % (rng.randrange(10**6), uniq)
            t6 = pool.raw_enqueue("bgchild_tl", "sleep %s &\necho started\nexit 0\n" % marker4, proj.root, time_limit=1, deps=[])
            pool.wait_states(lambda st: st.get(t6) in ("KILLED", "FAILED", "COMPLETED"), timeout=30)
            time.sleep(2.0)
            left = marker_pids(marker4)
            res.mon("orphans_checked")
            if left:
                res.violation("orphan-process", "2 s after a task with a lingering background child hit its time limit (state %s), the child still runs (pids %s)" % (pool.states().get(t6), left))
                for p in left:
                    try:
                        os.kill(p, 9)
                    except OSError:
                        pass
            # a helper process that ignores SIGTERM (the shell itself dies from it): cancelled while running, and
            # hitting a time limit - the helper has to be gone in both cases
            for label, tl in (("termproof-cancel", None), ("termproof-timelimit", 1)):
                mk = "30%d.%06d%s" % (4 if tl is None else 5, rng.randrange(10**6), uniq)
                t7 = pool.raw_enqueue(label.replace("-", "_"), "(trap '' TERM; exec sleep %s) &\necho started\nwait\n" % mk, proj.root, time_limit=tl, deps=[])
                pool.wait_states(lambda st: st.get(t7) in ("RUNNING", "KILLED"), timeout=15)
                if tl is None:
                    for _ in range(40):
                        if marker_pids(mk):
                            break
                        time.sleep(0.05)
                    time.sleep(0.3)  # let the sub-shell install its trap and exec
                    c = pool.client()
                    c.send("cancel_task", tid=t7)
                    c.close()
                pool.wait_states(lambda st: st.get(t7) in ("CANCELLED", "KILLED", "FAILED"), timeout=40)
                time.sleep(2.0)
                left = marker_pids(mk)
                res.mon("orphans_checked")
                if left:
                    res.violation("orphan-process", "%s: 2 s after the task became final (%s) its SIGTERM-ignoring helper still runs (pids %s)" % (label, pool.states().get(t7), left))
                    for p in left:
                        try:
                            os.kill(p, 9)
                        except OSError:
                            pass
            # a task that cannot be started (missing working directory) and its dependent
            t3 = pool.raw_enqueue("nowd", "echo hi", os.path.join(proj.root, "does", "not", "exist"), time_limit=None, deps=[])
            t4 = pool.raw_enqueue("afternowd", "echo hi", proj.root, time_limit=None, deps=[t3])
            pool.wait_states(lambda st: st.get(t3) in ("FAILED", "KILLED") and st.get(t4) in ("FAILED", "KILLED"), timeout=15)
            st = pool.states()
            res.mon("real_tasks", 4)
            if st.get(t3) not in ("FAILED", "KILLED") or st.get(t4) not in ("FAILED", "KILLED"):
                res.violation("stuck-after-unexpected-exception", "task with a missing working directory is %s, its dependent %s" % (st.get(t3), st.get(t4)))
            if not pool.alive():
                res.violation("pool-died", "worker pool process exited: %s" % pool.read_log()[-500:])
        res.sig = ("real", case["cores"], case["seed"] % 3)
        res.nontrivial = True
        for p in marker_pids(uniq):  # never leave anything behind, whatever happened above
            try:
                os.kill(p, 9)
            except OSError:
                pass
    return res


def run_real_c11(case):
    """real pool, real processes: dependents of a task that failed, was cancelled while running, or hit its time limit
    (also in the variant where the task's shell has already exited 0 and only a background child keeps the task
    alive) must never start; dependents of a task that completed do"""
    res = Result()
    rng = random.Random(case["seed"])
    with gen.Project() as proj:
        proj.write_workflow("from gwf import Workflow\ngwf = Workflow()\n")
        uniq = "%05d%04d" % (os.getpid() % 100000, int(time.time() * 10) % 10000)
        with realpool.Pool(proj, ncores=case.get("cores", 3)) as pool:
            final = ("COMPLETED", "FAILED", "CANCELLED", "KILLED")
            scen = []
            mk1 = "311.%06d%s" % (rng.randrange(10**6), uniq)
            # (label, script, time limit, how it ends, dependent may start?)
            scen.append(("ok", "true", None, None, True))
            scen.append(("fails", "exit 3", None, None, False))
            scen.append(("timeout", "sleep %s" % mk1, 1, None, False))
            mk2 = "312.%06d%s" % (rng.randrange(10**6), uniq)
            scen.append(("timeout_shell_gone", "sleep %s &\necho started\nexit 0\n" % mk2, 1, None, False))
            mk3 = "313.%06d%s" % (rng.randrange(10**6), uniq)
            scen.append(("cancelled", "sleep %s" % mk3, None, "cancel", False))
            ids = {}
            for label, script, tl, how, _ in scen:
                ids[label] = pool.raw_enqueue(label, script, proj.root, time_limit=tl, deps=[])
                ids[label + "_dep"] = pool.raw_enqueue(label + "_dep", "touch %s.dep.ran" % label, proj.root, time_limit=None, deps=[ids[label]])
            pool.wait_states(lambda st: st.get(ids["cancelled"]) == "RUNNING", timeout=20)
            c = pool.client()
            c.send("cancel_task", tid=ids["cancelled"])
            c.close()
            pool.wait_states(lambda st: all(st.get(t_) in final for t_ in ids.values()), timeout=60)
            st = pool.states()
            # late dependents: submitted after the prerequisite has ended
            for label, _, _, _, _ in scen:
                ids[label + "_late"] = pool.raw_enqueue(label + "_late", "touch %s.late.ran" % label, proj.root, time_limit=None, deps=[ids[label]])
            pool.wait_states(lambda st_: all(st_.get(t_) in final for t_ in ids.values()), timeout=60)
            st = pool.states()
            res.mon("real_dependents_checked", 2 * len(scen))
            res.obs("real_states", {k: st.get(v) for k, v in ids.items()})
            for label, _, _, _, may in scen:
                for kind in ("dep", "late"):
                    ran = os.path.exists(os.path.join(proj.root, "%s.%s.ran" % (label, kind)))
                    s_ = st.get(ids["%s_%s" % (label, kind)])
                    if may and (not ran or s_ != "COMPLETED"):
                        res.violation("real-dependent-not-run", "dependent (%s) of a completed task is %s, ran=%s" % (kind, s_, ran), states={k: st.get(v) for k, v in ids.items()})
                    if not may and (ran or s_ == "COMPLETED"):
                        res.violation("spawn-after-bad-dep", "real pool: the %s dependent of the task '%s' (which ended %s) was started (state %s)" % (kind, label, st.get(ids[label]), s_), states={k: st.get(v) for k, v in ids.items()})
            if st.get(ids["timeout_shell_gone"]) == "COMPLETED":
                res.violation("dep-failure-wrong-state", "real pool: a task that was still running at its time limit (shell gone, background child holding its output) is reported COMPLETED", states={k: st.get(v) for k, v in ids.items()})
        for p in marker_pids(uniq):
            try:
                os.kill(p, 9)
            except OSError:
                pass
    res.sig = ("real", case.get("cores", 3), case["seed"] % 3)
    res.nontrivial = True
    return res
