"""O — reference models, written against the property texts (not gwf's code).

Abstract workflow used by the oracles:

    targets: list of {"name", "ins": [spelling...], "outs": [spelling...],
                      "wd": absolute working dir, "spec": str, ...}
"""

import hashlib


# --------------------------------------------------------------------------
# paths: own POSIX normaliser (no os.path)
# --------------------------------------------------------------------------


def resolve(wd, p):
    """Resolve spelling `p` against absolute directory `wd`; collapse '.', '..', '//'."""
    if not p.startswith("/"):
        p = wd + "/" + p
    out = []
    for seg in p.split("/"):
        if seg == "" or seg == ".":
            continue
        if seg == "..":
            if out:
                out.pop()
            continue
        out.append(seg)
    return "/" + "/".join(out)


def res_ins(t):
    return [resolve(t["wd"], p) for p in t["ins"]]


def res_outs(t):
    return [resolve(t["wd"], p) for p in t["outs"]]


# --------------------------------------------------------------------------
# dependency relation (C03) and validation (C04)
# --------------------------------------------------------------------------


def dependency_relation(targets):
    """-> deps: name -> set(names), producers: path -> [names], unresolved: set(paths)"""
    producers = {}
    for t in targets:
        for p in set(res_outs(t)):
            producers.setdefault(p, []).append(t["name"])
    deps = {t["name"]: set() for t in targets}
    unresolved = set()
    for t in targets:
        for p in res_ins(t):
            if p in producers:
                for a in producers[p]:
                    deps[t["name"]].add(a)
            else:
                unresolved.add(p)
    return deps, producers, unresolved


def invert(deps):
    inv = {n: set() for n in deps}
    for b, ds in deps.items():
        for a in ds:
            inv[a].add(b)
    return inv


def validate(targets, existing):
    """-> set of defect kinds that apply: 'multi', 'unresolved', 'cycle' (empty = well formed).
    existing: predicate(path) -> bool"""
    kinds = set()
    deps, producers, unresolved = dependency_relation(targets)
    for p, names in producers.items():
        if len(names) > 1:
            kinds.add("multi")
    for p in unresolved:
        if not existing(p):
            kinds.add("unresolved")
    # Kahn
    indeg = {n: len(ds) for n, ds in deps.items()}
    inv = invert(deps)
    queue = [n for n, d in indeg.items() if d == 0]
    seen = 0
    while queue:
        n = queue.pop()
        seen += 1
        for m in inv[n]:
            indeg[m] -= 1
            if indeg[m] == 0:
                queue.append(m)
    if seen != len(deps):
        kinds.add("cycle")
    return kinds


def topo_order(deps):
    indeg = {n: len(ds) for n, ds in deps.items()}
    inv = invert(deps)
    queue = sorted(n for n, d in indeg.items() if d == 0)
    out = []
    while queue:
        n = queue.pop()
        out.append(n)
        for m in sorted(inv[n]):
            indeg[m] -= 1
            if indeg[m] == 0:
                queue.append(m)
    return out


def closure(start, rel):
    """transitive closure of `start` (set of names) under rel: name -> set(names); includes start"""
    seen = set(start)
    stack = list(start)
    while stack:
        n = stack.pop()
        for m in rel.get(n, ()):
            if m not in seen:
                seen.add(m)
                stack.append(m)
    return seen


# --------------------------------------------------------------------------
# staleness (C01), status table and submission plan (C02)
# --------------------------------------------------------------------------


def sha1(spec):
    return hashlib.sha1(spec.encode("utf-8")).hexdigest()


def stale(t, mtime, hashing=False, record=None):
    """C01: NOT completed?  mtime: path -> number | None (missing)."""
    outs = res_outs(t)
    ins = res_ins(t)
    if hashing and record != sha1(t["spec"]):
        return True
    if len(outs) == 0:
        return True
    if any(mtime.get(p) is None for p in outs):
        return True
    in_times = [mtime.get(p) for p in ins]
    in_times = [x for x in in_times if x is not None]
    oldest_out = min(mtime[p] for p in outs)
    if in_times and max(in_times) > oldest_out:
        return True
    return False


def status_table(targets, deps, backend, mtime, hashing=False, records=None):
    """name -> status string as `gwf status` should show it.
    backend: name -> 'unknown'|'submitted'|'running'|'completed'|'failed'|'cancelled'"""
    records = records or {}
    by = {t["name"]: t for t in targets}
    st = {}
    for n in topo_order(deps):
        b = backend.get(n, "unknown")
        if b in ("submitted", "running", "failed", "cancelled"):
            st[n] = b
        elif any(st[d] != "completed" for d in deps[n]):
            st[n] = "shouldrun"
        elif stale(by[n], mtime, hashing, records.get(n)):
            st[n] = "shouldrun"
        else:
            st[n] = "completed"
    return st


def cone(selected, deps):
    return closure(set(selected), deps)


def plan(targets, deps, backend, mtime, selected, hashing=False, records=None):
    """-> (submit set, prereqs: name -> set of dep names that are not complete)"""
    st = status_table(targets, deps, backend, mtime, hashing, records)
    c = cone(selected, deps)
    submit = {n for n in c if st[n] in ("shouldrun", "failed", "cancelled")}
    prereq = {n: {d for d in deps[n] if st[d] != "completed"} for n in submit}
    return submit, prereq, st


def endpoints(deps):
    inv = invert(deps)
    return {n for n in deps if not inv[n]}
