"""C11 — local pool: a task starts only after all its dependencies completed successfully."""

import tempfile
import shutil

from .. import poolcase, vloop
from ..core import Result

ID = "C11"
LEVEL = "exploration"
TECHNIQUE = "runtime monitoring: real gwf.backends.local.Scheduler on a virtual-time event loop, invariant asserted at every process spawn, seeded adversary choosing the order of external events"
RULE = (
    "random task DAGs (1-12 tasks, 0-3 deps each, late submissions depending on finished/failed/cancelled tasks), "
    "cores 1-4, time limits shorter/longer than the run time; the REAL Scheduler runs on an event loop whose selector "
    "and clock belong to the harness; at every quiescent point a seeded adversary injects one external event: process "
    "exit (any code), death of a killed process, cancel request (any task, any time), new task, time advance to the next "
    "timer, optionally bursts. Hook at every spawn: every dependency is COMPLETED and its process exited 0. End-state "
    "oracle from a sequential model replaying the event log: a task with a failed/timed-out/cancelled dependency is "
    "never started and ends failed resp. cancelled. A real-process lane (gwf workers + bash jobs journalling "
    "start/end) is part of C13. Non-trivial: a task with >= 2 deps exists and a cancel or failure happened. distinct = "
    "the adversary's event-order string (so the count is the number of distinct interleavings observed)."
)
ASSUMPTIONS = ["child processes are replaced by harness-controlled fake processes (asyncio.create_subprocess_shell patched in the harness process)"]


QUICK_BUDGET = {"cases": 50000, "deadline_s": 170, "case_timeout_s": 60, "floors": {"spawn_events": 57996, "bad_dep_tasks": 20000, "real_dependents_checked": 60}}
THOROUGH_FACTOR = 12  # thorough = the same workload with 12x the cases (floors scale along)


def budget(tier):
    from ..core import scaled_budget

    return scaled_budget(QUICK_BUDGET, tier, THOROUGH_FACTOR, noscale=())


def gen_case(rng, idx, tier):
    if idx % 2501 == 7:
        return {"lane": "real", "seed": rng.randrange(1 << 30), "cores": rng.choice([2, 3]), "timeout_s": 240}
    return poolcase.gen_pool_case(rng, faults=(idx % 4 == 0))


def on_timeout(case, frames, timeout_s):
    return poolcase.on_timeout(case, frames, timeout_s)


def run_case(case):
    if case.get("lane") == "real":
        from .. import realpool_lanes

        return realpool_lanes.run_real_c11(case)
    res = Result()
    d = tempfile.mkdtemp(prefix="gwfv-pool-")
    try:
        h = vloop.run_harness(case, d)
        poolcase.eval_c11(h, res)
        res.sig = poolcase.event_string(h)
        res.obs("events", h.events[:60])
        res.obs("transitions", h.transitions[:40])
        res.obs("final_states", h.snapshots[-1]["states"] if h.snapshots else None)
        kinds = {e["kind"] for e in h.events}
        res.nontrivial = any(len(t["deps"]) >= 2 for t in case["tasks"]) and ("cancel" in kinds or any(e["kind"] == "exit" and e["code"] != 0 for e in h.events))
        res.count("quiescent_points", len(h.snapshots))
    finally:
        shutil.rmtree(d, ignore_errors=True)
    return res
