"""C16 — touch makes the selected cone look completed without changing file contents."""

import os

from .. import cli, gen, model, scenario
from ..core import Result
from ..simcluster import SimCluster

ID = "C16"
LEVEL = "exploration"
RULE = (
    "random DAGs (1-8 targets: diamonds, several endpoints, shared dependencies, targets without outputs) with initial "
    "states in which outputs are older than inputs, intermediates are missing and existing files have content; random "
    "target selection; spec hashing on/off with stale records; a 5 ms delay is injected after every utime/create event "
    "so that the order is observable in mtimes too. Observed: audit-hook journal (os.utime / creating open events in "
    "order), snapshot (content hashes, mtimes) before/after, the following `gwf status`, spec-hashes file. Oracle: "
    "touched/created paths == declared outputs of cone(selection) exactly; pre-existing contents unchanged, created "
    "files empty; for every edge d->t in the cone the last touch of each output of t comes after the last touch of every "
    "output of d, and mtimes are non-decreasing along edges; `gwf status` shows every cone target with outputs completed; "
    "records of cone targets == sha1(spec) when hashing is on, others untouched. Non-trivial: the cone is a proper subset "
    "containing a diamond or shared dependency. distinct = (shape class, selection class, initial-state class, hashing)."
)
ASSUMPTIONS = ["output directories exist", "clean backend (no tracked jobs), sources dated in the past"]


QUICK_BUDGET = {"cases": 1440, "deadline_s": 170, "case_timeout_s": 60, "floors": {"touch_runs": 504, "edges_ordered": 1554, "status_rows": 1749, "contents_compared": 6000, "fresh_sources": 170, "wide_cases": 1, "full_speed_touches": 200}}
THOROUGH_FACTOR = 17  # thorough = the same workload with 17x the cases (floors scale along)


def budget(tier):
    from ..core import scaled_budget

    return scaled_budget(QUICK_BUDGET, tier, THOROUGH_FACTOR, noscale=())


def wide_case(rng):
    """a wide workflow whose outputs are all missing, touched by a gwf process with a modest descriptor limit"""
    n = rng.randint(260, 340)
    targets = [{"name": "w%03d" % i, "ins": ["src0.txt"], "outs": ["wo%03d_%d.dat" % (i, k) for k in range(rng.randint(1, 2))], "spec": "echo w%d\n" % i} for i in range(n)]
    ticks = {"src0.txt": 1}
    for t in targets:
        for o in t["outs"]:
            ticks[o] = None
    names = [t["name"] for t in targets]
    return {"links": {}, "leftover_tmp": False, "dag": {"targets": targets, "sources": ["src0.txt"], "shape": "wide"}, "ticks": ticks, "patterns": [], "hashing": rng.random() < 0.5, "records": {n_: "never" for n_ in names}, "fresh_source": None, "nofile": 64, "timeout_s": 300}


def gen_case(rng, idx, tier):
    if idx % 701 == 11:
        return wide_case(rng)
    dag = gen.gen_dag(rng, max_targets=8, p_noout=0.1, shapes=rng.choice(["random", "random", "diamond", "forest", "fan", "chain"]))
    ticks = {s: rng.choice([0, 1, 2]) for s in dag["sources"]}
    for t in dag["targets"]:
        mode = rng.choice(["old", "random", "missing", "ok"])
        for o in t["outs"]:
            ticks[o] = {"old": 0, "missing": None, "ok": 3}.get(mode, rng.choice([None, 0, 1, 2, 3]))
        t["spec"] = "echo %s\n" % t["name"]
    names = [t["name"] for t in dag["targets"]]
    links = {}
    for t in dag["targets"]:
        for o in t["outs"]:
            if rng.random() < 0.12:
                links[o] = rng.choice(["data", "dangling"])
    return {
        "links": links,
        "leftover_tmp": rng.random() < 0.3,
        "dag": dag,
        "ticks": ticks,
        "patterns": scenario.gen_selection(rng, names) if rng.random() < 0.6 else [],
        "hashing": rng.random() < 0.5,
        "records": {n: rng.choice(["same", "diff", "never"]) for n in names},
        # a source file written just before the touch (same wall-clock second): not "in the future"
        "fresh_source": rng.randrange(1 << 30) if rng.random() < 0.35 else None,
    }


def run_case(case):
    res = Result()
    with gen.Project() as proj:
        root = proj.root
        ts = case["dag"]["targets"]
        variant = [{"name": t["name"], "ins_expr": repr(t["ins"]), "outs_expr": repr(t["outs"]), "spec": t["spec"], "route": "target"} for t in ts]
        proj.write_workflow(gen.render_workflow(variant))
        cfg = {"backend": "slurm"}
        if case["hashing"]:
            cfg["use_spec_hashes"] = True
        proj.write_config(cfg)
        links = case.get("links", {})
        for f, tk in case["ticks"].items():
            if f in links:
                # the output is a symbolic link: to (old) data kept outside the project, or to nothing yet
                if links[f] == "data":
                    proj.set_file(f, 0, content="linked payload of %s\n" % f, symlink=True, link_tick=3)
                else:
                    os.makedirs(os.path.join(proj.base, "outside"), exist_ok=True)  # the directory exists, the data does not
                    os.symlink(os.path.join(proj.base, "outside", "not_yet_" + f), proj.path(f))
                continue
            proj.set_file(f, tk, content=("payload of %s\n" % f) if tk is not None else None)
        link_paths = {model.resolve(root, f) for f in links}
        proj.write("unrelated.txt", "keep\n")
        os.utime(proj.path("unrelated.txt"), ns=(gen.BASE_T * 10**9, gen.BASE_T * 10**9))
        recs = {}
        for t in ts:
            r_ = case["records"][t["name"]]
            if r_ == "same":
                recs[t["name"]] = model.sha1(t["spec"])
            elif r_ == "diff":
                recs[t["name"]] = "0" * 40
        os.makedirs(os.path.join(root, ".gwf", "logs"), exist_ok=True)
        if recs:
            proj.write_state("spec-hashes.json", recs)
        if case.get("leftover_tmp"):
            # an earlier gwf command was killed while writing its state: the temporary files are still there
            for n_ in ("spec-hashes.json.tmp", "slurm-backend-tracked.json.tmp"):
                with open(os.path.join(root, ".gwf", n_), "w") as fh:
                    fh.write('{"half written')
        mts = [dict(t, wd=root) for t in ts]
        by = {t["name"]: t for t in mts}
        deps, _, _ = model.dependency_relation(mts)
        names = set(deps)
        sel = scenario.select(names, case["patterns"])
        selected = model.endpoints(deps) if sel is None else sel
        c = model.cone(selected, deps)
        want_paths = set()
        for n in c:
            want_paths.update(model.res_outs(by[n]))
        if case.get("fresh_source") is not None:
            srcs = sorted(s_ for s_ in case["dag"]["sources"] if os.path.isfile(proj.path(s_)) and not os.path.islink(proj.path(s_)))
            if srcs:
                os.utime(proj.path(srcs[case["fresh_source"] % len(srcs)]), None)  # modified right now
                res.mon("fresh_sources")
        before = gen.snapshot(root)
        SimCluster(proj.simdir, "slurm")
        env = cli.env_for(proj.simdir, ("slurm",))
        if case.get("nofile"):
            res.mon("wide_cases")
        # half of the runs at full speed: consecutive touches then often get the SAME timestamp (one kernel clock tick),
        # which is still "consistent with the dependency order"; the other half with a pause after every touch so that
        # the order itself shows in the timestamps
        no_delay = bool(case.get("nofile")) or (len(ts) + len(case["patterns"]) + len(case["ticks"])) % 2 == 0
        if no_delay:
            res.mon("full_speed_touches")
        r = cli.gwf(root, ["touch"] + case["patterns"], env, utime_delay=0.0 if no_delay else 0.005, nofile=case.get("nofile"), timeout=240 if case.get("nofile") else 60)
        res.mon("touch_runs")
        ctx = {"patterns": case["patterns"], "cone": sorted(c), "deps": {k: sorted(v) for k, v in deps.items()}}
        if r.rc != 0:
            res.violation("crash", "gwf touch failed", **cli.crash_witness(r), **ctx)
            return res
        after = gen.snapshot(root)
        # --- which paths were touched/created, in which order (audit journal)
        order = []
        for e in r.audit:
            if e["ev"] == "os.utime":
                order.append(model.resolve(root, str(e["args"][0])))
            elif e["ev"] == "open" and isinstance(e.get("flags"), int) and e["flags"] & os.O_CREAT and not isinstance(e.get("mode"), str):
                order.append(model.resolve(root, e["path"]))
        touched = set(order)
        res.obs("touch", {"patterns": case["patterns"], "cone": sorted(c), "event_order": [os.path.relpath(x, root) for x in order][:40]})
        d = gen.snap_diff(before, after)
        changed_fs = {os.path.join(root, p) for p in d["added"] + d["touched"] + d["modified"] if not p.startswith(".gwf/")}
        if touched - want_paths or changed_fs - want_paths:
            res.violation("touched-outside-cone", "touch touched %s which are not outputs of the selected cone" % sorted(os.path.relpath(p, root) for p in (touched | changed_fs) - want_paths), **ctx)
        if (want_paths - link_paths) - changed_fs:
            res.violation("not-touched", "outputs of the cone not touched/created: %s" % sorted(os.path.relpath(p, root) for p in (want_paths - link_paths) - changed_fs), **ctx)
        for lp in sorted(link_paths & want_paths):
            # through the link: the data must exist now and keep its content
            res.mon("linked_outputs_checked")
            if not os.path.exists(lp):
                res.violation("not-touched", "output %s is a (dangling) symbolic link and still has no data after touch" % os.path.relpath(lp, root), **ctx)
            elif links[os.path.relpath(lp, root)] == "data" and open(lp).read() != "linked payload of %s\n" % os.path.relpath(lp, root):
                res.violation("content-changed", "touch changed the data behind the symbolic link %s" % os.path.relpath(lp, root), **ctx)
        removed_ = [p for p in d["removed"] if not p.startswith(".gwf/")]
        if removed_:
            res.violation("touch-removed", "touch removed %s" % removed_, **ctx)
        for p in d["modified"]:
            if not p.startswith(".gwf/"):
                res.violation("content-changed", "touch changed the content of %s" % p, **ctx)
        for p in d["added"]:
            if not p.startswith(".gwf/") and os.path.join(root, p) not in link_paths and after[p][0] != 0:
                res.violation("created-nonempty", "touch created %s with %d bytes" % (p, after[p][0]), **ctx)
        res.mon("contents_compared", len(before))
        # --- order along edges
        last = {}
        for i, p in enumerate(order):
            last[p] = i
        for t in c:
            for dname in deps[t]:
                if dname not in c:
                    continue
                res.mon("edges_ordered")
                for po in model.res_outs(by[t]):
                    for pd in model.res_outs(by[dname]):
                        if po in last and pd in last and last[po] < last[pd]:
                            res.violation("touch-order", "output %s of %s was last touched before output %s of its dependency %s" % (os.path.relpath(po, root), t, os.path.relpath(pd, root), dname), order=[os.path.relpath(x, root) for x in order], **ctx)
                        ro, rd = os.path.relpath(po, root), os.path.relpath(pd, root)
                        if po in link_paths or pd in link_paths:
                            if os.path.exists(po) and os.path.exists(pd) and os.stat(po).st_mtime_ns < os.stat(pd).st_mtime_ns:
                                res.violation("touch-order", "mtime (through the symbolic link) of %s (%s) is older than that of %s of its dependency %s" % (ro, t, rd, dname), **ctx)
                        elif ro in after and rd in after and after[ro][1] < after[rd][1]:
                            res.violation("touch-order", "mtime of %s (%s) is older than that of %s of its dependency %s" % (ro, t, rd, dname), **ctx)
        # --- status afterwards
        r2 = cli.gwf(root, ["status"], env)
        if r2.rc != 0:
            res.violation("crash", "gwf status after touch failed", **cli.crash_witness(r2), **ctx)
            return res
        table = dict(cli.parse_status(r2.out))
        for n in c:
            if by[n]["outs"]:
                res.mon("status_rows")
                if table.get(n) != "completed":
                    res.violation("not-completed-after-touch", "%s is %s after touch" % (n, table.get(n)), table=table, hashing=case["hashing"], **ctx)
        # --- spec hashes
        hashes = proj.state_files().get("spec-hashes.json", {})
        want = dict(recs)
        if case["hashing"]:
            for n in c:
                want[n] = model.sha1(by[n]["spec"])
        res.mon("hash_files_checked")
        if (hashes or {}) != want:
            res.violation("hash-records", "spec hashes after touch %s; expected %s" % (hashes, want), hashing=case["hashing"], **ctx)
        shared = any(len(v) >= 2 for v in deps.values()) or any(len(v) >= 2 for v in model.invert(deps).values())
        init = tuple(sorted(set("missing" if case["ticks"].get(o) is None else "present" for t in ts for o in t["outs"])))
        res.sig = (gen.shape_class(deps), bool(case["patterns"]), len(c), init, case["hashing"])
        res.nontrivial = shared and len(c) < len(names)
    return res
