"""C09 — interrupted runs neither forget nor duplicate jobs the scheduler accepted."""

import json
import os
import random

from .. import cli, gen, model, scenario
from .. import core
from ..core import Result
from ..simcluster import QUERY_CMDS, SUBMIT_CMD, SimCluster

ID = "C09"
LEVEL = "fault_enumeration"
TECHNIQUE = "runtime monitoring with fault enumeration: every position of every scheduler command of a run x failure kind, hard kills between submissions (simulated scheduler kills its parent) and inside each state-file write (open() proxy in the forked gwf process), SIGKILL / KeyboardInterrupt at the k-th executed statement of gwf's own code (sys.monitoring LINE failpoint); oracle over simulator journal + state files"
RULE = (
    "workflows of 3-7 targets (chains, diamonds, fans: dependencies cross the fault position) on simulated "
    "Slurm/SGE/LSF, spec hashing on in half of the cases, optionally an earlier clean partial run whose jobs are still "
    "pending, or an earlier COMPLETE run whose jobs have all failed / been cancelled since (the interrupted run then "
    "re-submits targets that already have a tracked id). For each workflow the fault list is enumerated systematically: k-th submit command (k=1..n) x {non-zero "
    "exit, exit 0 + 'error:' on stderr, exit 0 + garbage stdout, SIGKILL of gwf right after acceptance, SIGKILL right "
    "before}, each start-up query (squeue/sacct/qstat/bjobs) x 3 failure kinds, kill inside the write of each state file "
    "after 0 bytes / half / all bytes, kill right before / right after each rename-into-place of a state file; and "
    "statement-granular crash points (sys.monitoring LINE events in the forked gwf process): SIGKILL, or a "
    "KeyboardInterrupt as Ctrl-C raises it, at the k-th statement executed in gwf's own source after the first submit "
    "command was issued (k drawn per case over the whole remaining run; the site file:line is journaled). Then with faults off: `gwf status` and `gwf run` while the adversary keeps the "
    "earlier jobs pending. Oracle: the next invocations exit normally (state files parse); no target whose accepted job "
    "is still pending gets a second job; the remaining targets of the C02 plan (computed on the scheduler's TRUE job "
    "table) are submitted with prerequisites = ids accepted before the interruption; spec hash recorded => submission "
    "accepted. Non-trivial: the fault lands strictly inside the submission sequence of a workflow with a dependency "
    "crossing it. distinct = (backend, command, position class, kind, hashing)."
)
ASSUMPTIONS = [
    "simulated schedulers; crash points are boundary events (scheduler commands, file open/write/rename) plus every statement boundary of gwf's own source files - not inside a statement, and not inside library code (json.dump, subprocess) other than through the write/rename failpoints",
    "local backend: a recording stand-in for the pool drops / resets the connection or answers garbage at the k-th enqueue",
]

WALK = 80  # positions per workflow: one systematic walk through its fault list (<= 76 entries)
SUB_KINDS = ["exit1", "stderr_error", "garbage", "kill_parent_after", "kill_parent_before"]
Q_KINDS = ["exit1", "stderr_error", "garbage"]


QUICK_BUDGET = {"cases": 600, "deadline_s": 170, "case_timeout_s": 120, "floors": {"faults_injected": 196, "second_runs_checked": 196, "kill_points": 30, "write_kills": 40, "line_faults": 50, "line_faults_fired": 40, "resubmission_histories": 60, "jobs_running_at_next_invocation": 60}}
THOROUGH_FACTOR = 12  # thorough = the same workload with 12x the cases (floors scale along)


def budget(tier):
    from ..core import scaled_budget

    return scaled_budget(QUICK_BUDGET, tier, THOROUGH_FACTOR, noscale=())


def _submit_lines():
    """line numbers, in the checked tree's gwf/backends/base.py, of the two statements of TrackingBackend.submit that
    end the window in which an accepted job id exists only in the scheduler's reply: the statement storing the id in the
    table, and the call that writes the table to disk"""
    try:
        with open(os.path.join(core.REPO, "src", "gwf", "backends", "base.py")) as fh:
            lines = fh.read().splitlines()
    except OSError:
        return None, None
    start = next((i for i, ln in enumerate(lines) if ln.strip().startswith("def submit(self, target, dependencies)")), None)
    if start is None:
        return None, None
    assign = save = None
    for i in range(start + 1, len(lines)):
        ln = lines[i]
        if ln.strip().startswith("def "):
            break
        if assign is None and "self._tracked_jobs[target.name] = job_id" in ln:
            assign = i + 1
        if save is None and ln.strip() == "self._save_state()":
            save = i + 1
    return assign, save


def site_in_window(site):
    """Is the statement at which the process was killed / interrupted inside the recorded in-flight window?
    kill: until the table holding the new id has been written (the _save_state() call of submit has returned);
    interrupt: until the id has been stored in the table (close() saves the table on the way out)."""
    if not site:
        return False
    f, func, line = site["file"], site["func"], site["line"]
    if f.startswith("gwf/backends/") and f != "gwf/backends/base.py":
        return True  # scheduler-specific submission code: the reply is being produced / parsed
    if f != "gwf/backends/base.py":
        return False
    assign, save = _submit_lines()
    if site["action"] == "interrupt":
        return func == "submit" and assign is not None and line <= assign
    if func in ("_save_state", "_get_state_path"):
        return True
    return func == "submit" and save is not None and line <= save


def fault_in_window(f, site):
    if f["where"] in ("submit", "enqueue"):
        return True  # the scheduler command itself is hit (kill of gwf while the command runs / reply lost)
    if f["where"] == "write":
        return "backend-tracked" in f["suffix"]  # killed inside the write of the table
    if f["where"] == "fsevent":
        return "backend-tracked" in "".join(f["contains"])  # killed before an operation of that write
    if f["where"] == "line":
        return site_in_window(site)
    return False  # e.g. after the table has been renamed into place: the id is durable


def fault_list(sched, n, pre):
    """the fault list of one configuration, categories interleaved so that any prefix of the walk is a mixed sample"""
    cats = []
    # k-th submit command x failure kind; positions strictly inside the sequence first
    ks = [k for k in range(2, n)] + [1, n] if n > 2 else list(range(1, n + 1))
    ks = list(dict.fromkeys(ks))
    cats.append([{"where": "submit", "k": k, "kind": kind} for k in ks for kind in ("kill_parent_after", "exit1", "kill_parent_before", "stderr_error", "garbage")])
    qs = []
    for q in QUERY_CMDS[sched]:
        if q in ("sacct", "bjobs") and not pre:
            continue
        for kind in Q_KINDS:
            qs.append({"where": "query", "cmd": q, "k": 1, "kind": kind})
    cats.append(qs)
    cats.append([{"where": "write", "suffix": suffix, "after": after} for after in ("half", 0, "all") for suffix in ("-backend-tracked.json", "spec-hashes.json")])
    # kill right before the n-th mutating file-system operation on a state file (open/rename/remove)
    cats.append([{"where": "fsevent", "contains": ["backend-tracked"], "nth": n_} for n_ in (2, 1, 3, 4)] + [{"where": "fsevent", "contains": ["spec-hashes"], "nth": n_} for n_ in (1, 2)])
    # kill right AFTER a state file has been renamed into place (unflushed buffers are lost)
    cats.append([{"where": "afterreplace", "contains": ["backend-tracked"], "nth": n_} for n_ in (1, 2, 3)] + [{"where": "afterreplace", "contains": ["spec-hashes"], "nth": 1}])
    # statement-granular crash points: hard kill / Ctrl-C (KeyboardInterrupt) at the k-th statement executed in
    # gwf's own source after the first submission command was issued (k drawn per case)
    cats.append([{"where": "line", "action": a} for _ in range(8) for a in ("kill", "interrupt")])
    fl = []
    i = 0
    while any(cats):
        c = cats[i % len(cats)]
        if c:
            fl.append(c.pop(0))
        i += 1
    return fl


# configurations walked in the inner loop (so that every prefix of the case sequence covers all of them):
# scheduler x history before the interrupted run; index 12 = local backend
CONFS = [(s, h) for h in ("none", "pending", "failed") for s in ("slurm", "sge", "lsf", "slurm-noacct")] + [("local", None)]


def gen_case(rng, idx, tier):
    conf = idx % len(CONFS)
    j = idx // len(CONFS)  # position in this configuration's walk
    sched, hist = CONFS[conf]
    if sched == "local":
        n = rng.randint(3, 6)
        dag = gen.gen_dag(rng, n_targets=n, p_noout=0.0, shapes=rng.choice(["chain", "diamond", "fan", "random"]))
        for t in dag["targets"]:
            t["spec"] = "echo %s\n" % t["name"]
        fault = {"where": "enqueue", "k": rng.randint(1, n), "kind": rng.choice(["drop", "garbage", "wrong_kind", "reset"])}
        if rng.random() < 0.4:
            fault = {"where": "line", "action": rng.choice(["kill", "interrupt"]), "nth": rng.randint(1, 150 * n + 80), "k": 0}
        return {"sched": "local", "dag": dag, "pre": rng.random() < 0.5, "hashing": rng.random() < 0.5, "fault": fault}
    # one workflow per full walk through the configuration's fault list (WALK positions), a new one afterwards
    wf_rng = random.Random((j // WALK) * 7919 + conf * 104729 + 13)
    n = wf_rng.randint(3, 7)
    dag = gen.gen_dag(wf_rng, n_targets=n, p_noout=0.0, shapes=wf_rng.choice(["chain", "diamond", "fan", "random"]))
    for t in dag["targets"]:
        t["spec"] = "echo %s\n" % t["name"]
    # the earlier invocation was either a partial run whose job is still pending, or a COMPLETE run all of whose jobs
    # have failed / were cancelled since: the interrupted run then re-submits targets that already have a tracked id
    pre = hist != "none"
    pre_failed = hist == "failed"
    hashing = wf_rng.random() < 0.5
    noacct = sched == "slurm-noacct"
    sched = "slurm" if noacct else sched
    fl = fault_list(sched, n - (1 if pre and not pre_failed else 0), pre and not noacct)
    if noacct:
        fl = [f for f in fl if f.get("cmd") != "sacct"]
    # systematic walk through the fault list, random beyond it
    f = dict(fl[j % WALK] if (j % WALK) < len(fl) else rng.choice(fl))
    if f["where"] == "line":
        f["nth"] = rng.randint(1, 185 * (n - (1 if pre and not pre_failed else 0)) + 40)
    return {"sched": sched, "dag": dag, "pre": pre, "pre_failed": pre_failed, "hashing": hashing, "fault": f, "noacct": noacct, "start_some": rng.randrange(1, 1 << 30) if rng.random() < 0.5 else None}


def truth_tracked(sim, sched):
    """name -> latest accepted job id of user me (the scheduler's own table)"""
    out = {}
    for j in sorted(sim.jobs().values(), key=lambda j: int(j["id"])):
        if j["user"] == "me" and j["sched"] == sched:
            out[j["name"]] = j["id"]
    return out


def run_local(case):
    """local backend: the k-th enqueue request is not answered properly by the (recording) pool"""
    from ..recserver import RecServer

    res = Result()
    f = case["fault"]
    with gen.Project() as proj, RecServer() as srv:
        ts = case["dag"]["targets"]
        variant = [{"name": t["name"], "ins_expr": repr(t["ins"]), "outs_expr": repr(t["outs"]), "spec": t["spec"], "route": "target"} for t in ts]
        proj.write_workflow(gen.render_workflow(variant))
        cfg = {"backend": "local", "backend.local.port": srv.port, "backend.local.host": "127.0.0.1"}
        if case["hashing"]:
            cfg["use_spec_hashes"] = True
        proj.write_config(cfg)
        for s in case["dag"]["sources"]:
            proj.set_file(s, 0)
        mts = [dict(t, wd=proj.root) for t in ts]
        deps, _, _ = model.dependency_relation(mts)
        env = cli.env_for(None, ())
        first = model.topo_order(deps)[0]
        if case["pre"]:
            r = cli.gwf(proj.root, ["run", first], env, audit=False)
            if r.rc != 0:
                res.violation("crash", "clean partial local run failed", **cli.crash_witness(r))
                return res
        accepted_before = {v["name"]: t for t, v in srv.tasks.items()}
        site = None
        if f["where"] == "line":
            r1 = cli.gwf(proj.root, ["run"], env, timeout=90, failpoint={"kind": "line", "action": f["action"], "nth": f["nth"], "arm": "socket.connect"})
            site = next((e for e in r1.audit if e.get("ev") == "linefp"), None)
            res.mon("line_faults")
            if site:
                res.mon("line_faults_fired")
        else:
            srv.fault = {"nth": srv.enqueues + f["k"], "kind": f["kind"]}
            r1 = cli.gwf(proj.root, ["run"], env, audit=False, timeout=90)
            srv.fault = None
        res.mon("faults_injected")
        truth = {}
        for t, v in sorted(srv.tasks.items()):
            truth[v["name"]] = t
        accepted_now = {n: t for n, t in truth.items() if accepted_before.get(n) != t}
        last_accepted = max(accepted_now, key=lambda n: accepted_now[n]) if accepted_now else None
        res.obs("interrupted_local_run", {"fault": f, "rc": r1.rc, "site": site, "accepted_in_that_run": accepted_now, "state_files_after": proj.state_files()})

        def mech(base, involved):
            # same single in-flight window as on the clusters (see run_case)
            if site and last_accepted is not None and involved and set(involved) <= {last_accepted} and site_in_window(site):
                return "inflight-id-lost-on-hard-kill" if site["action"] == "kill" else "inflight-id-lost-on-interrupt"
            return base

        ctx = {"sched": "local", "fault": f, "site": site, "rc1": r1.rc, "accepted_in_faulty_run": accepted_now, "accepted_before": accepted_before, "err1": r1.err[-500:]}
        dup1 = sorted(n for n in accepted_now if n in accepted_before)
        if dup1:
            res.violation("duplicate-in-interrupted-run", "the interrupted local run enqueued %s again" % dup1, **ctx)
        hashes = proj.state_files().get("spec-hashes.json", {})
        if case["hashing"] and isinstance(hashes, dict):
            res.mon("hash_records_checked")
            bad = sorted(n for n in hashes if n not in truth)
            if bad:
                res.violation("hash-without-acceptance", "spec hash recorded for %s whose enqueue was never accepted" % bad, **ctx)
        r2 = cli.gwf(proj.root, ["status"], env, audit=False)
        if r2.rc != 0:
            res.violation("next-invocation-fails", "after the interrupted local run `gwf status` fails", **cli.crash_witness(r2), **ctx)
            return res
        bview = {n: "submitted" for n in truth}  # the recording pool keeps every accepted task pending
        mtime = scenario.disk_mtimes(scenario.all_paths(mts))
        want_submit, want_prereq, st = model.plan(mts, deps, bview, mtime, model.endpoints(deps))
        n0 = len(srv.log)
        r3 = cli.gwf(proj.root, ["run"], env, audit=False)
        res.mon("second_runs_checked")
        if r3.rc != 0:
            res.violation("next-invocation-fails", "after the interrupted local run `gwf run` fails", **cli.crash_witness(r3), **ctx)
            return res
        enq = [m for m in srv.log[n0:] if m.get("__kind__") == "enqueue_task"]
        names2 = [m["name"] for m in enq]
        tracked_file = proj.state_files().get("local-backend-tracked.json", {})
        dup = sorted(n for n in names2 if n in truth)
        if dup:
            res.violation(mech("duplicate-after-interruption", dup), "local: targets %s got a second task although their accepted task (%s) is still pending" % (dup, {n: truth[n] for n in dup}), tracked_file=tracked_file, **ctx)
        missing = sorted(set(want_submit) - set(names2))
        extra = sorted(set(names2) - set(want_submit) - set(dup))
        if missing or extra:
            res.violation(mech("plan-after-interruption", missing + extra), "local: second run enqueued %s; expected %s" % (sorted(names2), sorted(want_submit)), tracked_file=tracked_file, **ctx)
        newid = {}
        for m in enq:
            newid[m["name"]] = max(t for t, v in srv.tasks.items() if v["name"] == m["name"])
        for m in enq:
            if m["name"] not in want_prereq:
                continue
            want_ids = sorted(newid[d] if d in newid else truth.get(d) for d in want_prereq[m["name"]])
            if sorted(m["deps"], key=str) != sorted(want_ids, key=str):
                res.violation(mech("prereq-after-interruption", [d for d in want_prereq[m["name"]] if d not in newid]), "local: %s enqueued with deps %s; the tasks accepted for its incomplete deps are %s" % (m["name"], m["deps"], want_ids), tracked_file=tracked_file, **ctx)
        n = len(deps) - (1 if case["pre"] else 0)
        if f["where"] == "line":
            res.sig = ("local", "line", f["action"], (site["file"], site["line"]) if site else None, case["hashing"])
            res.nontrivial = site is not None
            return res
        pos = "first" if f["k"] == 1 else ("last" if f["k"] >= n else "inside")
        res.sig = ("local", "enqueue", pos, f["kind"], case["hashing"], case["pre"])
        res.nontrivial = pos == "inside"
    return res


def run_case(case):
    if case["sched"] == "local":
        return run_local(case)
    res = Result()
    sched = case["sched"]
    f = case["fault"]
    with gen.Project() as proj:
        ts = case["dag"]["targets"]
        variant = [{"name": t["name"], "ins_expr": repr(t["ins"]), "outs_expr": repr(t["outs"]), "spec": t["spec"], "route": "target"} for t in ts]
        proj.write_workflow(gen.render_workflow(variant))
        cfg = {"backend": sched}
        if case["hashing"]:
            cfg["use_spec_hashes"] = True
        if case.get("noacct"):
            cfg["backend.slurm.accounting_enabled"] = False
        proj.write_config(cfg)
        for s in case["dag"]["sources"]:
            proj.set_file(s, 0)
        mts = [dict(t, wd=proj.root) for t in ts]
        deps, _, _ = model.dependency_relation(mts)
        names = sorted(deps)
        sim = SimCluster(proj.simdir, sched)
        env = cli.env_for(proj.simdir, (sched,))
        first = model.topo_order(deps)[0]
        if case["pre"]:
            r = cli.gwf(proj.root, ["run"] + ([] if case.get("pre_failed") else [first]), env)
            if r.rc != 0:
                res.violation("crash", "clean earlier run failed", **cli.crash_witness(r))
                return res
            if case.get("pre_failed"):
                # every job of that run ends badly: roots fail, everything waiting on them is cancelled
                for jid in sorted(sim.runnable(), key=int):
                    sim.start(jid)
                    sim.finish(jid, exit=1)
                for jid in sorted(sim.pending(), key=int):
                    sim.cancel(jid)
                res.mon("resubmission_histories")
        accepted_before = truth_tracked(sim, sched)
        live_before = {n for n, st_ in scenario.backend_view(sim, accepted_before, sched).items() if st_ in ("submitted", "running")}
        # ---- the interrupted run
        seq0 = sim.seq()
        fp = None
        if f["where"] == "submit":
            sim.set_faults([{"cmd": SUBMIT_CMD[sched], "nth": f["k"], "kind": f["kind"]}])
        elif f["where"] == "query":
            sim.set_faults([{"cmd": f["cmd"], "nth": f["k"], "kind": f["kind"]}])
        elif f["where"] == "fsevent":
            fp = {"kind": "kill_at_fs_event", "contains": f["contains"], "nth": f["nth"]}
        elif f["where"] == "afterreplace":
            fp = {"kind": "kill_after_replace", "contains": f["contains"], "nth": f["nth"]}
        elif f["where"] == "line":
            fp = {"kind": "line", "action": f["action"], "nth": f["nth"], "arm": [SUBMIT_CMD[sched]]}
        else:
            fp = {"kind": "kill_in_write", "suffix": f["suffix"], "nth": 1, "after": f["after"], "half_len": 9}
        r1 = cli.gwf(proj.root, ["run"], env, failpoint=fp)
        sim.set_faults([])
        res.mon("faults_injected")
        killed = (r1.rc is not None and r1.rc < 0) or r1.rc == 137
        site = next((e for e in r1.audit if e.get("ev") == "linefp"), None)
        if f["where"] == "line":
            res.mon("line_faults")
            if site:
                res.mon("line_faults_fired")
        if f["where"] in ("write", "fsevent", "afterreplace"):
            res.mon("write_kills")
            if f.get("suffix") == "spec-hashes.json" and not case["hashing"]:
                killed = False
        if f.get("kind") in ("kill_parent_after", "kill_parent_before") if f["where"] == "submit" else False:
            res.mon("kill_points")
        subs1 = scenario.submissions_view(sim, seq0)
        accepted_now = {s["name"]: s["id"] for s in subs1}
        truth = truth_tracked(sim, sched)
        interruption = "kill" if killed else ("error" if r1.rc != 0 else "none")
        if site and site["action"] == "interrupt":
            interruption = "interrupt"
        res.obs("interrupted_run", {"fault": f, "rc": r1.rc, "interruption": interruption, "accepted_before": accepted_before, "accepted_in_that_run": accepted_now, "state_files_after": proj.state_files(), "site": site})
        ctx = {"sched": sched, "fault": f, "rc1": r1.rc, "interruption": interruption, "accepted_in_faulty_run": accepted_now, "accepted_before": accepted_before, "err1": r1.err[-400:]}

        last_accepted = subs1[-1]["name"] if subs1 else None

        def mech(base, involved):
            # The one window gwf cannot close: killed after the scheduler accepted a job but before gwf had
            # recorded that job's id (reply not read yet / state write of exactly that id not finished).
            # Only that single in-flight job may be forgotten (recorded finding); everything accepted
            # earlier in the run - or in earlier invocations - has to be remembered.
            if last_accepted is None or not involved or not set(involved) <= {last_accepted} or not fault_in_window(f, site):
                return base
            if interruption == "kill":
                return "inflight-id-lost-on-hard-kill"
            if interruption == "interrupt":
                return "inflight-id-lost-on-interrupt"
            return base

        # the interrupted run itself must not submit a second job for a target whose earlier job is pending
        dup1 = sorted(n for n in accepted_now if n in live_before)
        if dup1:
            res.violation("duplicate-in-interrupted-run", "the interrupted run submitted %s again although their earlier jobs %s are still pending" % (dup1, {n: accepted_before[n] for n in dup1}), **ctx)

        # spec hash recorded => accepted
        hashes = proj.state_files().get("spec-hashes.json", {})
        if case["hashing"] and isinstance(hashes, dict):
            res.mon("hash_records_checked")
            bad = sorted(n for n in hashes if n not in truth)
            if bad:
                res.violation("hash-without-acceptance", "spec hash recorded for %s whose submission was never accepted" % bad, **ctx)
        # the scheduler may have STARTED some of the accepted jobs meanwhile: pending or running, they are in flight
        if case.get("start_some"):
            sr = random.Random(case["start_some"])
            for jid in sorted(sim.runnable(), key=int):
                if sr.random() < 0.6:
                    sim.start(jid)
                    res.mon("jobs_running_at_next_invocation")
        # ---- next invocation: status
        r2 = cli.gwf(proj.root, ["status"], env)
        if r2.rc != 0:
            unread = "JSONDecodeError" in r2.err or "Expecting value" in r2.err
            res.violation(
                "state-file-unreadable" if unread else "next-invocation-fails",
                "after the interrupted run `gwf status` fails (%s)" % (r2.exc_type or r2.err.strip().splitlines()[-1:] or "?"),
                state_files=proj.state_files(),
                **cli.crash_witness(r2),
                **ctx,
            )
            return res
        # ---- next invocation: run (earlier jobs still pending)
        tracked_file = proj.state_files().get(scenario.tracked_file(sched), {})
        bview = scenario.backend_view(sim, truth, sched)
        mtime = scenario.disk_mtimes(scenario.all_paths(mts))
        want_submit, want_prereq, st = model.plan(mts, deps, bview, mtime, model.endpoints(deps))
        seq1 = sim.seq()
        r3 = cli.gwf(proj.root, ["run"], env)
        res.mon("second_runs_checked")
        if r3.rc != 0:
            res.violation("next-invocation-fails", "after the interrupted run `gwf run` fails", **cli.crash_witness(r3), **ctx)
            return res
        subs2 = scenario.submissions_view(sim, seq1)
        names2 = [s["name"] for s in subs2]
        res.obs("next_run", {"submitted": [(s["name"], s["id"], s["dep_raw"]) for s in subs2], "expected": sorted(want_submit)})
        dup = sorted(n for n in names2 if bview.get(n) in ("submitted", "running"))
        if dup:
            res.violation(mech("duplicate-after-interruption", dup), "targets %s got a second job although their accepted job (%s) is still pending" % (dup, {n: truth[n] for n in dup}), tracked_file=tracked_file, **ctx)
        missing = sorted(set(want_submit) - set(names2))
        extra = sorted(set(names2) - set(want_submit) - set(dup))
        if missing or extra:
            res.violation(mech("plan-after-interruption", missing + extra), "second run submitted %s; expected %s" % (sorted(names2), sorted(want_submit)), tracked_file=tracked_file, **ctx)
        newid = {s["name"]: s["id"] for s in subs2}
        for s in subs2:
            if s["name"] not in want_prereq:
                continue
            want_ids = {newid[d] if d in newid else truth.get(d) for d in want_prereq[s["name"]]}
            if set(s["prereq_ids"]) != want_ids:
                involved = [d for d in want_prereq[s["name"]] if d not in newid]
                res.violation(mech("prereq-after-interruption", involved), "%s submitted with prerequisites %s; the jobs accepted for its incomplete deps are %s" % (s["name"], s["prereq_ids"], sorted(map(str, want_ids))), tracked_file=tracked_file, **ctx)
        # signature
        if f["where"] == "submit":
            n = len(names) - (1 if case["pre"] and not case.get("pre_failed") else 0)
            pos = "first" if f["k"] == 1 else ("last" if f["k"] >= n else "inside")
            crossing = any(True for _ in [0])
            res.sig = (sched, "submit", pos, f["kind"], case["hashing"], case["pre"], bool(case.get("pre_failed")))
            res.nontrivial = pos == "inside"
        elif f["where"] == "query":
            res.sig = (sched, f["cmd"], f["kind"], case["hashing"], case["pre"])
            res.nontrivial = case["pre"]
        elif f["where"] == "line":
            res.sig = (sched, "line", f["action"], (site["file"], site["line"]) if site else None, case["hashing"])
            res.nontrivial = site is not None
        elif f["where"] == "afterreplace":
            res.sig = (sched, "afterreplace", f["contains"][0], f["nth"], case["hashing"], case["pre"], killed)
            res.nontrivial = True
        elif f["where"] == "fsevent":
            res.sig = (sched, "fsevent", f["contains"][0], f["nth"], case["hashing"], case["pre"], killed)
            res.nontrivial = True
        else:
            res.sig = (sched, "write", f["suffix"], str(f["after"]), case["hashing"], case["pre"])
            res.nontrivial = True
    return res
