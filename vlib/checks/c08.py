"""C08 — a target's reported state is the scheduler's state of its own latest job."""

import json
import os
import random
import re
import xml.etree.ElementTree as ET

from .. import cli, gen, model, scenario
from ..core import Inconclusive, Result
from ..simcluster import SimCluster

ID = "C08"
FILLERS = 90  # ids the first pool instance hands out before the targets get theirs (more than the lane lasts in seconds)
LEVEL = "exploration"
RULE = (
    "independent targets (so a row reflects its own job only) with output present/missing; the tracked job of each "
    "target is put into a scheduler state and surrounded by foreign jobs with conflicting states, the same job name and "
    "near-by ids (12 / 123 / 1234). Lanes: (codes) every documented code of each scheduler - Slurm squeue short codes, "
    "sacct long names incl. 'CANCELLED by <uid>', SGE state-letter combinations, LSF bjobs states - enumerated "
    "systematically; (prec) live queue vs. contradicting stale accounting; (noacct) accounting disabled => no sacct call; "
    "(hist) run / fail / run again - the old id must be forgotten; (batch) 1030-2100 tracked jobs with the interesting one "
    "beyond the first accounting batch; (localpool) real `gwf workers` pool incl. time-limit kill and a pool restart. "
    "Truth = what the simulator ANSWERED for the target's latest id in this invocation (parsed from the journal), mapped "
    "by an independent table from the man pages; success/no record => file-based decision. Non-trivial: a foreign job "
    "with a conflicting state is present. distinct = (backend, lane, code, precedence situation)."
)
ASSUMPTIONS = [
    "simulated schedulers stand in for Slurm/SGE/LSF",
    "tolerances: suspended-while-running codes (Slurm S, ST; SGE s, S, T; LSF USUSP, SSUSP) accept running or submitted; SGE d*/E* accept failed, cancelled or file-based; Slurm CF, RS, SO accept submitted or running; RV, SE, LSF UNKWN, ZOMBI, PROV are recorded with a tolerant set",
]

FB = "filebased"
# --- my own tables (from the schedulers' man pages) -----------------------------------------
SLURM_SHORT = {
    "BF": {"failed"}, "CA": {"cancelled"}, "CD": {FB}, "CF": {"submitted", "running"}, "CG": {"running"},
    "DL": {"failed"}, "F": {"failed"}, "NF": {"failed"}, "OOM": {"failed"}, "PD": {"submitted"},
    "PR": {"failed"}, "R": {"running"}, "RD": {"submitted"}, "RF": {"submitted"}, "RH": {"submitted"},
    "RQ": {"submitted"}, "RS": {"submitted", "running"}, "RV": {"submitted", "failed", "cancelled", FB},
    "SI": {"running", "submitted"}, "SE": {"submitted", "failed"}, "SO": {"running", "submitted"},
    "ST": {"running", "submitted"}, "S": {"running", "submitted"}, "TO": {"failed"},
}
SLURM_LONG = {
    "BOOT_FAIL": {"failed"}, "CANCELLED": {"cancelled"}, "CANCELLED by 1000": {"cancelled"}, "COMPLETED": {FB},
    "DEADLINE": {"failed"}, "FAILED": {"failed"}, "NODE_FAIL": {"failed"}, "OUT_OF_MEMORY": {"failed"},
    "PENDING": {"submitted"}, "PREEMPTED": {"failed"}, "RUNNING": {"running"}, "REQUEUED": {"submitted"},
    "RESIZING": {"submitted", "running"}, "REVOKED": {"submitted", "failed", "cancelled", FB},
    "SUSPENDED": {"running", "submitted"}, "TIMEOUT": {"failed"},
}
SLURM_LONG_TO_SHORT = {"BOOT_FAIL": "BF", "CANCELLED": "CA", "COMPLETED": "CD", "DEADLINE": "DL", "FAILED": "F", "NODE_FAIL": "NF", "OUT_OF_MEMORY": "OOM", "PENDING": "PD", "PREEMPTED": "PR", "RUNNING": "R", "REQUEUED": "RQ", "RESIZING": "RS", "REVOKED": "RV", "SUSPENDED": "S", "TIMEOUT": "TO"}
SGE = {
    "qw": {"submitted"}, "hqw": {"submitted"}, "hRwq": {"submitted"}, "r": {"running"}, "t": {"running"},
    "Rr": {"running"}, "Rt": {"running"}, "s": {"running", "submitted"}, "S": {"running", "submitted"},
    "T": {"running", "submitted"}, "dr": {"failed", "cancelled", FB}, "dt": {"failed", "cancelled", FB},
    "Eqw": {"failed", "cancelled", FB},
}
LSF = {
    "PEND": {"submitted"}, "WAIT": {"submitted"}, "PROV": {"submitted", "running"}, "PSUSP": {"submitted"},
    "RUN": {"running"}, "USUSP": {"running", "submitted"}, "SSUSP": {"running", "submitted"}, "DONE": {FB},
    "EXIT": {"failed"}, "UNKWN": {"running", "submitted", "failed", FB}, "ZOMBI": {"running", "failed", "submitted", FB},
}

CODE_SWEEP = (
    [("slurm", "queue", c) for c in sorted(SLURM_SHORT)]
    + [("slurm", "acct", c) for c in sorted(SLURM_LONG)]
    + [("sge", "queue", c) for c in sorted(SGE)]
    + [("lsf", "queue", c) for c in sorted(LSF)]
)


QUICK_BUDGET = {"cases": 600, "deadline_s": 170, "case_timeout_s": 150, "floors": {"rows_checked": 492, "codes_covered_events": 59, "sacct_batches_checked": 2, "noacct_checked": 10, "pool_rows": 6}}
THOROUGH_FACTOR = 12  # thorough = the same workload with 12x the cases (floors scale along)


def budget(tier):
    from ..core import scaled_budget

    return scaled_budget(QUICK_BUDGET, tier, THOROUGH_FACTOR, noscale=('codes_covered_events', 'sacct_batches_checked', 'noacct_checked', 'pool_rows'))


def gen_case(rng, idx, tier):
    nsweep = 2 * len(CODE_SWEEP)
    if idx < nsweep:
        sched, src, code = CODE_SWEEP[idx % len(CODE_SWEEP)]
        lane = "codes"
    else:
        k = idx % 12
        lane = "batch" if k == 0 else ("localpool" if k == 1 else rng.choice(["prec", "noacct", "hist", "codes"]))
        if lane == "codes":
            sched, src, code = rng.choice(CODE_SWEEP)
        else:
            sched, src, code = ("slurm" if lane in ("prec", "noacct", "batch") else rng.choice(["slurm", "sge", "lsf"])), None, None
    case = {
        "lane": lane,
        "sched": sched,
        "src": src,
        "code": code,
        "out_present": rng.random() < 0.5,
        "my_id": rng.choice([123, 1234, 77]),
        "foreign_seed": rng.randrange(1 << 30),
        "ntargets": rng.randint(1, 3),
    }
    if lane == "prec":
        case["queue_code"] = rng.choice(["PD", "R", "CG", "PD", "R"])
        case["acct_code"] = rng.choice(["PENDING", "RUNNING", "FAILED", "COMPLETED", "CANCELLED by 1000", "TIMEOUT"])
    if lane == "noacct":
        case["phase"] = rng.choice(["pending", "running", "failed", "cancelled", "ok"])
    if lane == "batch":
        case["n_tracked"] = rng.choice([1030, 1500, 2100])
        case["pos"] = rng.choice(["first", "boundary", "last"])
        case["acct_code"] = rng.choice(["FAILED", "CANCELLED", "TIMEOUT", "COMPLETED", "RUNNING"])
    if lane == "hist":
        case["second"] = rng.choice(["pending", "running", "ok", "failed"])
        case["first_end"] = rng.choice(["failed", "cancelled"]) if sched == "slurm" else "failed"
    return case


def file_based(present):
    return "completed" if present else "shouldrun"


def expected_from(classes, present):
    return {file_based(present) if c == FB else c for c in classes}


def write_project(proj, sched, names, present, extra_cfg=None):
    ts = [{"name": n, "ins_expr": "['src.txt']", "outs_expr": repr([n + ".out"]), "spec": "echo %s\n" % n, "route": "target"} for n in names]
    proj.write_workflow(gen.render_workflow(ts))
    cfg = {"backend": sched}
    cfg.update(extra_cfg or {})
    proj.write_config(cfg)
    proj.set_file("src.txt", 0)
    for n in names:
        proj.set_file(n + ".out", 2 if present.get(n) else None)


def add_foreign(sim, sched, rng, my_id, my_name, avoid):
    """foreign jobs with near-by ids, the same name and conflicting states"""
    pool = [str(my_id)[:-1] or "1", str(my_id) + "4", "1" + str(my_id), str(my_id + 1), str(my_id - 1)]
    n = 0
    for fid in pool:
        if fid in avoid or int(fid) <= 0:
            continue
        phase = rng.choice(["pending", "running", "finished", "cancelled"])
        sim.add_job(rng.choice([my_name, "other"]), phase=phase, exit=rng.choice([0, 1]), user=rng.choice(["other", "me"]), sched=sched, jid=fid)
        avoid.add(fid)
        n += 1
    return n


def answered(sim, seq0, sched, jid):
    """(source, code) the scheduler answered for `jid` in the invocation after seq0"""
    q = a = None
    for r in sim.commands(seq0):
        if r["cmd"] == "squeue":
            for ln in r["stdout"].splitlines():
                parts = ln.strip().split(";")
                if len(parts) == 2 and parts[0] == jid:
                    q = parts[1]
        elif r["cmd"] == "sacct":
            for ln in r["stdout"].splitlines():
                parts = ln.strip().split("|")
                if len(parts) == 2 and parts[0] == jid:
                    a = parts[1]
        elif r["cmd"] == "qstat":
            try:
                root = ET.fromstring(r["stdout"])
                for jl in root.iter("job_list"):
                    if jl.find("JB_job_number").text == jid:
                        q = jl.find("state").text
            except ET.ParseError:
                pass
        elif r["cmd"] == "bjobs" and r["argv"] and r["argv"][-1] == jid:
            s = r["stdout"].strip()
            if s:
                q = s
    if q is not None:
        return "queue", q
    if a is not None:
        return "acct", a
    return None, None


def classes_for(sched, src, code):
    if src is None:
        return {FB}
    if sched == "slurm":
        return SLURM_SHORT.get(code) if src == "queue" else SLURM_LONG.get(code, SLURM_LONG.get(code.split()[0]))
    if sched == "sge":
        return SGE.get(code)
    return LSF.get(code)


def check_rows(res, case, proj, sim, env, names, present, tracked, label, nontrivial_foreign):
    seq0 = sim.seq()
    r = cli.gwf(proj.root, ["status"], env)
    sched = case["sched"]
    if r.rc != 0:
        res.violation("crash:%s:%s" % (sched, case.get("code") or case["lane"]), "%s: gwf status failed" % label, **cli.crash_witness(r), case_lane=case["lane"], code=case.get("code"))
        return None
    table = dict(cli.parse_status(r.out))
    for n in names:
        jid = tracked.get(n)
        src, code = answered(sim, seq0, sched, str(jid)) if jid is not None else (None, None)
        cl = classes_for(sched, src, code)
        res.mon("rows_checked")
        res.obs("%s:%s" % (label, n), {"job": jid, "scheduler_answered": [src, code], "gwf_shows": table.get(n), "output_present": present.get(n)})
        if cl is None:
            res.count("unplaced_code_%s" % code)
            continue
        want = expected_from(cl, present.get(n))
        if table.get(n) not in want:
            res.violation(
                "state-mismatch:%s:%s" % (sched, code if src else "norecord"),
                "%s: scheduler answered %s=%r for job %s of %s; gwf shows %r, expected one of %s" % (label, src, code, jid, n, table.get(n), sorted(want)),
                table=table,
                tracked=tracked,
            )
    return seq0


def run_case(case):
    if case["lane"] == "localpool":
        return run_localpool(case)
    res = Result()
    sched = case["sched"]
    rng = random.Random(case["foreign_seed"])
    with gen.Project() as proj:
        names = ["t%d" % i for i in range(case["ntargets"])]
        present = {n: (case["out_present"] if i == 0 else rng.random() < 0.5) for i, n in enumerate(names)}
        if case["lane"] == "hist":
            present[names[0]] = False
        cfg = {}
        via_cli = None
        if case["lane"] == "noacct":
            if case["foreign_seed"] % 3 == 0:
                cfg["backend.slurm.accounting_enabled"] = False
            else:
                via_cli = ["no", "false"][case["foreign_seed"] % 2]  # set with `gwf config set`, as a user would
        write_project(proj, sched, names, present, cfg)
        sim = SimCluster(proj.simdir, sched)
        env = cli.env_for(proj.simdir, (sched,))
        if via_cli:
            rc_ = cli.gwf(proj.root, ["config", "set", "backend.slurm.accounting_enabled", via_cli], env, audit=False)
            if rc_.rc != 0:
                res.violation("crash", "gwf config set failed", **cli.crash_witness(rc_))
                return res
        tracked = {}
        avoid = set()
        lane = case["lane"]
        me = names[0]
        my_id = str(case["my_id"])
        nforeign = 0
        if lane == "codes":
            code, src = case["code"], case["src"]
            if sched == "slurm" and src == "queue":
                sim.add_job(me, phase="running", sched=sched, jid=my_id, code=code, in_queue=True, acct=rng.choice([None, {"phase": "pending", "exit": None, "code": None}]))
            elif sched == "slurm":
                base = code.split()[0]
                by = "1000" if " by " in code else None
                sim.add_job(me, phase="finished", exit=1, sched=sched, jid=my_id, acct={"phase": "finished", "exit": 1, "code": SLURM_LONG_TO_SHORT[base], "by": by})
            else:
                sim.add_job(me, phase="running", sched=sched, jid=my_id, code=code, in_queue=True)
            tracked[me] = my_id
            avoid.add(my_id)
            res.mon("codes_covered_events")
        elif lane == "prec":
            lc = SLURM_LONG_TO_SHORT[case["acct_code"].split()[0]]
            sim.add_job(me, phase="running", sched=sched, jid=my_id, code=case["queue_code"], in_queue=True, acct={"phase": "finished", "exit": 1, "code": lc, "by": "1000" if " by " in case["acct_code"] else None})
            tracked[me] = my_id
            avoid.add(my_id)
        elif lane == "noacct":
            ph = case["phase"]
            kw = {"pending": dict(phase="pending"), "running": dict(phase="running"), "failed": dict(phase="finished", exit=1), "cancelled": dict(phase="cancelled"), "ok": dict(phase="finished", exit=0)}[ph]
            sim.add_job(me, sched=sched, jid=my_id, **kw)
            tracked[me] = my_id
            avoid.add(my_id)
        elif lane == "batch":
            n = case["n_tracked"]
            pos = {"first": 3, "boundary": 1024, "last": n - 1}[case["pos"]]
            lc = SLURM_LONG_TO_SHORT[case["acct_code"]]
            ids = {}
            for i in range(n):
                nm = me if i == pos else "old%d" % i
                ids[nm] = str(5000 + i)
            tracked.update(ids)
            with sim.store() as s:
                import simcore

                for nm, jid in ids.items():
                    s.state["next_id"] = int(jid)
                    j = simcore.new_job(s.state, "slurm", nm, "#!/bin/bash\n", [], sim.d, None, None, {"opts": [], "multi": {}})
                    if nm == me:
                        ph = "running" if lc == "R" else "finished"
                        j["phase"] = ph
                        j["exit"] = 0 if lc == "CD" else 1
                        j["acct"] = {"phase": ph, "exit": j["exit"], "code": lc}
                    else:
                        j["phase"] = "finished"
                        j["exit"] = 0
                        j["acct"] = {"phase": "finished", "exit": 0, "code": None}
                    j["submit_seq"] = 0
        if lane == "hist":
            # run -> adversary ends the job badly -> run again (new id) -> put the new job in a state;
            # the old job stays in the accounting database with its failure
            r = cli.gwf(proj.root, ["run", me], env)
            if r.rc != 0:
                res.violation("crash", "gwf run failed", **cli.crash_witness(r))
                return res
            old = sim.submissions(0)[-1]["job"]
            sim.start(old)
            if case["first_end"] == "cancelled":
                sim.cancel(old)
            else:
                sim.finish(old, 1)
            r = cli.gwf(proj.root, ["run", me], env)
            subs = sim.submissions(0)
            if r.rc != 0 or len(subs) < 2:
                res.violation("hist-no-resubmit", "second gwf run did not resubmit the failed/cancelled target (SGE forgets finished jobs: file-based)" if sched == "sge" and present[me] else "second gwf run did not resubmit", **cli.crash_witness(r)) if not (sched == "sge" and present[me]) else None
                return res
            new = subs[-1]["job"]
            sec = case["second"]
            if sec in ("running", "ok", "failed"):
                sim.start(new)
            if sec == "ok":
                proj.set_file(me + ".out", 3)
                present[me] = True
                sim.finish(new, 0)
            elif sec == "failed":
                sim.finish(new, 2)
            with open(os.path.join(proj.root, ".gwf", scenario.tracked_file(sched))) as f:
                tracked = json.load(f)
            if tracked.get(me) != new:
                res.violation("stale-id", "tracked id of %s is %r after resubmission; the scheduler returned %r" % (me, tracked.get(me), new))
            avoid.update(sim.jobs().keys())
            my_id = new
        # other targets of the workflow: random own states
        for n_ in names[1:]:
            s_ = rng.choice(scenario.REPRESENTABLE[sched])
            jid = scenario.place_state(sim, sched, n_, s_)
            if jid:
                tracked[n_] = jid
                avoid.add(jid)
        if lane != "batch":
            nforeign = add_foreign(sim, sched, rng, int(my_id), me, avoid)
        proj.write_state(scenario.tracked_file(sched), tracked)
        seq0 = check_rows(res, case, proj, sim, env, names, present, tracked, lane, nforeign)
        if seq0 is not None:
            cmds = sim.commands(seq0)
            if lane == "noacct":
                res.mon("noacct_checked")
                if any(c["cmd"] == "sacct" for c in cmds):
                    res.violation("sacct-when-disabled", "accounting disabled but sacct was called: %s" % [c["argv"] for c in cmds if c["cmd"] == "sacct"])
            if lane == "batch":
                asked = set()
                for c in cmds:
                    if c["cmd"] == "sacct":
                        res.mon("sacct_batches_checked")
                        a = c["argv"]
                        lst = a[a.index("--jobs") + 1].split(",") if "--jobs" in a else []
                        asked.update(lst)
                        if len(lst) > 1024:
                            res.violation("sacct-batch-size", "one sacct query carried %d ids" % len(lst))
                missing = set(map(str, tracked.values())) - asked
                if missing:
                    res.violation("sacct-batch-missing", "%d tracked ids were never asked about, e.g. %s" % (len(missing), sorted(missing)[:5]))
            # the tracked-jobs file must still name the same latest ids afterwards
            after = proj.state_files().get(scenario.tracked_file(sched), {})
            if {k: str(v) for k, v in after.items()} != {k: str(v) for k, v in tracked.items()}:
                res.violation("tracked-changed-by-status", "gwf status changed the tracked-jobs file")
        res.sig = (sched, lane, case.get("code"), case.get("queue_code"), case.get("acct_code"), case.get("phase"), case.get("second"), case.get("pos"))
        res.nontrivial = nforeign > 0 or lane == "batch"
    return res


# --------------------------------------------------------------------------
# local pool lane (real `gwf workers` process)
# --------------------------------------------------------------------------


def run_localpool(case):
    from .. import realpool

    res = Result()
    rng = random.Random(case["foreign_seed"])
    with gen.Project() as proj:
        names = ["ok", "bad", "slow", "late"]
        ts = [
            {"name": "ok", "ins_expr": "[]", "outs_expr": "['ok.out']", "spec": "echo hi > ok.out\n", "route": "target"},
            {"name": "bad", "ins_expr": "[]", "outs_expr": "['bad.out']", "spec": "exit 3\n", "route": "target"},
            {"name": "slow", "ins_expr": "[]", "outs_expr": "['slow.out']", "spec": "sleep 30\n", "route": "target"},
            {"name": "late", "ins_expr": "['slow.out']", "outs_expr": "['late.out']", "spec": "echo x > late.out\n", "route": "target"},
        ]
        proj.write_workflow(gen.render_workflow(ts))
        with realpool.Pool(proj, ncores=2) as pool:
            env = cli.env_for(None, ())
            # other clients have used this pool before: it has handed out many more ids than it has been up seconds
            for _ in range(FILLERS):
                pool.raw_enqueue("filler", "true", proj.root, time_limit=None, deps=[])
            r = cli.gwf(proj.root, ["run"], env, audit=False)
            if r.rc != 0:
                res.violation("crash", "gwf -b local run failed", **cli.crash_witness(r))
                return res
            tid = proj.state_files().get("local-backend-tracked.json", {})
            if set(tid) != set(names):
                res.violation("crash", "local run did not track all four targets: %s" % tid)
                return res
            if not pool.wait_states(lambda st: st.get(tid["ok"]) == "COMPLETED" and st.get(tid["bad"]) == "FAILED" and st.get(tid["slow"]) == "RUNNING", timeout=40):
                raise Inconclusive("pool did not reach the expected task states in time: %s" % pool.states())
            r = cli.gwf(proj.root, ["status"], env, audit=False)
            table = dict(cli.parse_status(r.out))
            want = {"ok": {"completed"}, "bad": {"failed"}, "slow": {"running"}, "late": {"submitted"}}
            for n, w in want.items():
                res.mon("rows_checked")
                res.mon("pool_rows")
                if table.get(n) not in w:
                    res.violation("state-mismatch:local", "local pool: %s shown as %r, expected %s (pool states %s)" % (n, table.get(n), sorted(w), pool.states()), table=table)
            # cancel slow -> slow cancelled, late cancelled (dependency cancelled)
            r = cli.gwf(proj.root, ["cancel", "slow"], env, audit=False)
            if not pool.wait_states(lambda st: st.get(tid["slow"]) not in ("SUBMITTED", "RUNNING") and st.get(tid["late"]) not in ("SUBMITTED", "RUNNING"), timeout=40):
                raise Inconclusive("pool did not carry out the cancellation in time: %s" % pool.states())
            r = cli.gwf(proj.root, ["status"], env, audit=False)
            table = dict(cli.parse_status(r.out))
            for n, w in {"slow": {"cancelled"}, "late": {"cancelled"}, "ok": {"completed"}, "bad": {"failed"}}.items():
                res.mon("rows_checked")
                res.mon("pool_rows")
                if table.get(n) not in w:
                    res.violation("state-mismatch:local", "local pool after cancel: %s shown as %r, expected %s (pool states %s)" % (n, table.get(n), sorted(w), pool.states()), table=table)
            # a task killed by its time limit (raw protocol) must show as failed for the target tracking it
            ktid = pool.raw_enqueue("tl", "sleep 20", proj.root, time_limit=1, deps=[])
            tracked = proj.state_files().get("local-backend-tracked.json", {})
            tracked["bad"] = ktid
            proj.write_state("local-backend-tracked.json", tracked)
            if not pool.wait_states(lambda st: st.get(ktid) == "KILLED", timeout=40):
                raise Inconclusive("time-limited task not killed in time: %s" % pool.states())
            r = cli.gwf(proj.root, ["status"], env, audit=False)
            table = dict(cli.parse_status(r.out))
            res.mon("rows_checked")
            res.mon("pool_rows")
            if table.get("bad") != "failed":
                res.violation("state-mismatch:local", "local pool: task killed by its time limit shown as %r (pool state %s)" % (table.get("bad"), pool.states().get(ktid)))
            # ---- pool restart: ids start again from 0; a stale tracked id then aliases another task
            pool.restart()
            # other clients use the new pool instance: as many tasks as the old instance had handed out
            tid0 = None
            for _ in range(len(tid) + FILLERS + 40):
                tid0 = pool.raw_enqueue("unrelated", "sleep 30", proj.root, time_limit=None, deps=[])
            new_ids = set(pool.states())
            res.count("restart_id_overlap", len(new_ids & set(tid.values())))
            r = cli.gwf(proj.root, ["status"], env, audit=False)
            table = dict(cli.parse_status(r.out))
            res.mon("rows_checked")
            res.mon("pool_rows")
            # target "ok" tracked id 0 of the OLD pool; the new pool's task 0 is someone else's running task.
            if table.get("ok") != "completed":
                res.violation("local-restart-id-alias", "after a pool restart target 'ok' (its own job finished in the previous pool instance, output present) is shown as %r; ids of the new pool instance %s, tracked ids %s" % (table.get("ok"), sorted(new_ids), tid), table=table)
            for n_, w_ in (("bad", "shouldrun"), ("slow", "shouldrun")):
                # jobs of the previous instance are gone: no record => file-based decision (their outputs are missing)
                if n_ != "bad" and table.get(n_) != w_:
                    res.violation("local-restart-id-alias", "after a pool restart %s is shown as %r, expected %s (no record in the new pool instance)" % (n_, table.get(n_), w_), table=table)
        res.sig = ("local", "pool", case["foreign_seed"] % 2)
        res.nontrivial = True
    return res
