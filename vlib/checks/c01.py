"""C01 — up-to-date decision follows make semantics on files, timestamps and spec."""

import os
import random

from .. import cli, gen, model
from ..core import Result
from ..simcluster import SimCluster

ID = "C01"
LEVEL = "exploration"
RULE = (
    "random DAGs over a file pool (chains, diamonds, fans, forests, random; 1-8 targets, 0-3 outputs, shared "
    "sources); every file missing or stamped with one of 4 mtimes (whole ms, so exact ties are real); spec hashing "
    "off/on with per-target record never/same/different; backend clean or reporting COMPLETED. lib lane: each case "
    "rendered in 3 container-shape variants and decided by gwf.scheduling.get_status_map on a real project dir with "
    "the real CachedFilesystem; cli lane: `gwf status` rows + sbatch submissions of `gwf run` on a simulated Slurm. "
    "Oracle = model.status_table. Non-trivial: some target has all deps complete AND (an input/output timestamp tie, "
    "or an input strictly between two outputs, or an empty output container). distinct = signature multiset of "
    "per-target (n_in, n_out, mtime order pattern, record state, verdict)."
)
ASSUMPTIONS = [
    "mtimes lie on a grid of 10 s, 250 ms or 2 ms (so several distinct stamps fall inside one second) or are exactly equal; symbolic links only for source files (the data's timestamp counts)",
    "cli lane: simulated Slurm (simbin) stands in for the scheduler",
]


QUICK_BUDGET = {"cases": 640, "deadline_s": 170, "case_timeout_s": 60, "floors": {"lib_status_rows": 2000, "cli_status_rows": 93, "cli_submissions": 20}}
THOROUGH_FACTOR = 20  # thorough = the same workload with 20x the cases (floors scale along)


def budget(tier):
    from ..core import scaled_budget

    return scaled_budget(QUICK_BUDGET, tier, THOROUGH_FACTOR, noscale=())


def gen_case(rng, idx, tier):
    lane = "cli" if idx % 8 == 0 else "lib"
    dag = gen.gen_dag(rng, max_targets=8 if lane == "lib" else 6)
    ticks = {}
    for s in dag["sources"]:
        ticks[s] = rng.choice([0, 1, 2, 3])
    for t in dag["targets"]:
        mode = rng.choice(["allpresent", "allpresent", "random", "fresh"])
        for o in t["outs"]:
            if mode == "allpresent":
                ticks[o] = rng.choice([0, 1, 2, 3])
            elif mode == "fresh":
                ticks[o] = rng.choice([2, 3])
            else:
                ticks[o] = rng.choice([None, 0, 1, 2, 3])
    hashing = rng.random() < 0.4
    records = {}
    for t in dag["targets"]:
        records[t["name"]] = rng.choice(["same", "same", "same", "diff", "never"]) if hashing else "never"
        t["spec"] = "echo %s\n" % t["name"]
    # a stray record while hashing is off must be ignored
    stray = (not hashing) and rng.random() < 0.3
    backend = {t["name"]: rng.choice(["unknown", "unknown", "completed"]) for t in dag["targets"]}
    # some source files are symbolic links to data kept outside the project; the link's own timestamp differs
    symlinks = {s: rng.choice([0, 3]) for s in dag["sources"] if rng.random() < 0.2}
    # one source may be dated the Unix epoch (mtime exactly 0): it exists and is older than everything else
    epoch = rng.choice(sorted(dag["sources"])) if dag["sources"] and rng.random() < 0.2 else None
    if epoch is not None and epoch not in symlinks:
        ticks[epoch] = -1
    return {
        # scale of the mtime grid: 10 s, 250 ms (several stamps inside one second) or 2 ms
        "tick_ns": rng.choice([10_000_000_000, 10_000_000_000, 250_000_000, 2_000_000]),
        "symlinks": symlinks,
        "lane": lane,
        "dag": dag,
        "ticks": ticks,
        "hashing": hashing,
        "records": records,
        "stray_records": stray,
        "backend": backend,
        "shape_seeds": [rng.randrange(1 << 30) for _ in range(3 if lane == "lib" else 1)],
    }


def respell(r, p, root):
    k = r.random()
    if k < 0.6 or root is None:
        return gen.leaf_expr(p)
    if k < 0.7:
        return gen.leaf_expr("./" + p)
    if k < 0.8:
        return gen.leaf_expr("zz/../" + p)
    if k < 0.9:
        return gen.leaf_expr(root + "/" + p)
    if k < 0.95:
        return gen.leaf_expr(root + "/./" + p)
    return gen.leaf_expr(p, as_path=True)


def render_variant(case, seed, root=None):
    """same declared file sets, different grouping AND different spelling of every path"""
    r = random.Random(seed)
    out = []
    for t in case["dag"]["targets"]:
        out.append(
            {
                "name": t["name"],
                "ins_expr": gen.shape_expr(r, [respell(r, p, root) for p in t["ins"]]),
                "outs_expr": gen.shape_expr(r, [respell(r, p, root) for p in t["outs"]]),
                "spec": t["spec"],
            }
        )
    return out


def oracle(case, root):
    targets = [dict(t, wd=root) for t in case["dag"]["targets"]]
    deps, _, _ = model.dependency_relation(targets)
    mtime = {model.resolve(root, f): tk for f, tk in case["ticks"].items()}
    recs = {}
    for t in targets:
        r = case["records"][t["name"]]
        recs[t["name"]] = model.sha1(t["spec"]) if r == "same" else ("0" * 40 if r == "diff" else None)
    st = model.status_table(targets, deps, case["backend"], mtime, case["hashing"], recs)
    return targets, deps, mtime, st


def signature(case, targets, deps, mtime, st):
    sig = []
    nontrivial = False
    for t in targets:
        ins = [mtime.get(p) for p in model.res_ins(t)]
        outs = [mtime.get(p) for p in model.res_outs(t)]
        deps_ok = all(st[d] == "completed" for d in deps[t["name"]])
        pat = "-"
        if outs and all(o is not None for o in outs) and ins and all(i is not None for i in ins):
            mi, mo, xo = max(ins), min(outs), max(outs)
            pat = "tie" if mi == mo else ("between" if mo < mi < xo else ("newer" if mi > xo else "older"))
        elif not outs:
            pat = "noout"
        elif any(o is None for o in outs):
            pat = "missing"
        if deps_ok and pat in ("tie", "between", "noout"):
            nontrivial = True
        sig.append((len(ins), len(outs), pat, case["records"][t["name"]] if case["hashing"] else "off", st[t["name"]]))
    return sorted(sig), nontrivial


def classify(case, tname, variant_targets):
    """mechanism key for a disagreement on target `tname`"""
    t = next(x for x in case["dag"]["targets"] if x["name"] == tname)
    vt = next(x for x in variant_targets if x["name"] == tname)
    if not t["outs"] and vt["outs_expr"] in gen.EMPTY_TRUTHY:
        return "empty-truthy-output-container"
    return "status-mismatch"


def materialise(case, proj, variant):
    proj.tick_ns = case.get("tick_ns", proj.tick_ns)
    for f, tk in case["ticks"].items():
        if f in case.get("symlinks", {}) and tk is not None:
            proj.set_file(f, tk, symlink=True, link_tick=case["symlinks"][f])
        elif tk == -1:
            proj.set_file(f, 0)
            os.utime(proj.path(f), ns=(0, 0))  # the Unix epoch itself
        else:
            proj.set_file(f, tk)
    proj.write_workflow(gen.render_workflow(variant))
    cfg = {"backend": "slurm"}
    if case["hashing"]:
        cfg["use_spec_hashes"] = True
    proj.write_config(cfg)
    os.makedirs(os.path.join(proj.root, ".gwf", "logs"), exist_ok=True)  # the CLI always creates it
    recs = {}
    for t in case["dag"]["targets"]:
        r = case["records"][t["name"]]
        if r == "same":
            recs[t["name"]] = model.sha1(t["spec"])
        elif r == "diff":
            recs[t["name"]] = "0" * 40
    if case["stray_records"]:
        recs = {t["name"]: "f" * 40 for t in case["dag"]["targets"]}
    if recs or case["stray_records"]:
        proj.write_state("spec-hashes.json", recs)


def run_case(case):
    res = Result()
    with gen.Project() as proj:
        targets, deps, mtime, st = oracle(case, proj.root)
        res.sig, res.nontrivial = signature(case, targets, deps, mtime, st)
        if case["lane"] == "lib":
            run_lib(case, proj, st, res)
        else:
            run_cli(case, proj, st, res)
    return res


def run_lib(case, proj, st, res):
    from .. import inproc

    for vi, seed in enumerate(case["shape_seeds"]):
        variant = render_variant(case, seed, proj.root)
        materialise(case, proj, variant)
        try:
            wf = inproc.build_workflow(proj.root, variant)
            graph = inproc.graph_of(wf)
            cfg = {"use_spec_hashes": case["hashing"]}
            with inproc.gwf.core.get_spec_hashes(working_dir=proj.root, config=cfg) as sh:
                sm = inproc.gwf.scheduling.get_status_map(graph, inproc.CachedFilesystem(), sh, inproc.FakeBackend(case["backend"]))
        except Exception as e:  # valid workflow: any exception is a failure to decide
            res.violation("crash", "get_status_map raised %r on a valid workflow" % (e,), variant=variant)
            continue
        got = {t.name: s.name.lower() for t, s in sm.items()}
        res.obs("variant%d" % vi, {"targets": [(v["name"], v["ins_expr"], v["outs_expr"]) for v in variant], "gwf_status": got, "oracle": st})
        for name, want in st.items():
            res.mon("lib_status_rows")
            if got.get(name) != want:
                res.violation(
                    classify(case, name, variant),
                    "target %s: gwf says %s, make semantics say %s (variant %d)" % (name, got.get(name), want, vi),
                    target=name,
                    variant=[v for v in variant if v["name"] == name],
                    got=got,
                    want=st,
                )


def run_cli(case, proj, st, res):
    variant = render_variant(case, case["shape_seeds"][0], proj.root)
    materialise(case, proj, variant)
    sim = SimCluster(proj.simdir, "slurm")
    tracked = {}
    for name, b in case["backend"].items():
        if b == "completed":
            tracked[name] = sim.add_job(name, phase="finished", exit=0)
    if tracked:
        proj.write_state("slurm-backend-tracked.json", tracked)
    env = cli.env_for(proj.simdir, ("slurm",))
    r = cli.gwf(proj.root, ["status"], env)
    if r.rc != 0:
        res.violation("crash", "gwf status failed on a valid workflow", **cli.crash_witness(r))
        return
    got = dict(cli.parse_status(r.out))
    res.obs("cli", {"gwf_status": got, "oracle": st})
    for name, want in st.items():
        res.mon("cli_status_rows")
        if got.get(name) != want:
            res.violation(classify(case, name, variant), "gwf status shows %s as %s, expected %s" % (name, got.get(name), want), got=got, want=st, variant=variant)
    seq0 = sim.seq()
    want0 = sorted(n for n, s in st.items() if s == "shouldrun")
    if case["hashing"] and len(want0) >= 2 and case["shape_seeds"][0] % 2 == 0:
        return run_cli_partial(case, proj, st, res, sim, env, variant, want0)
    r2 = cli.gwf(proj.root, ["run"], env)
    if r2.rc != 0:
        res.violation("crash", "gwf run failed on a valid workflow", **cli.crash_witness(r2))
        return
    jobs = sim.jobs()
    names = sorted(jobs[s["job"]]["name"] for s in sim.submissions(seq0))
    want = sorted(n for n, s in st.items() if s == "shouldrun")
    res.mon("cli_submissions", len(names))
    res.mon("cli_runs")
    if names != want:
        extra = set(names) ^ set(want)
        mech = "status-mismatch"
        for n in extra:
            mech = classify(case, n, variant)
        res.violation(mech, "gwf run submitted %s, expected %s" % (names, want), variant=variant, status=st)
        return
    if case["hashing"]:
        # "unchanged since it was last SUBMITTED": drain the jobs, edit one script, let the scheduler reject
        # that submission, then the target must still be reported shouldrun
        import random as _r

        from .. import scenario

        rr = _r.Random(case["shape_seeds"][0])
        mts = [dict(t, wd=proj.root) for t in case["dag"]["targets"]]
        by = {t["name"]: t for t in mts}
        for _ in range(100):
            run_, act = sorted(sim.runnable()), sorted(sim.running())
            if not run_ and not act:
                break
            for j in run_:
                sim.start(j)
            for j in sorted(sim.running()):
                scenario.create_outputs(by[sim.jobs()[j]["name"]])
                sim.finish(j, 0)
        cand = [t for t in variant if by[t["name"]]["outs"]]
        if not cand or sim.pending():
            return
        victim = rr.choice(cand)
        victim["spec"] = victim["spec"] + "echo edited\n"
        proj.write_workflow(gen.render_workflow(variant))
        r3 = cli.gwf(proj.root, ["status"], env)
        if dict(cli.parse_status(r3.out)).get(victim["name"]) != "shouldrun":
            res.violation("status-mismatch", "hashing on: %s has an edited script but is shown as %s" % (victim["name"], dict(cli.parse_status(r3.out)).get(victim["name"])))
            return
        # a preview in between must not make the edited script count as submitted either
        cli.gwf(proj.root, ["run", "--dry-run", victim["name"]], env)
        r3b = cli.gwf(proj.root, ["status"], env)
        if dict(cli.parse_status(r3b.out)).get(victim["name"]) != "shouldrun":
            res.violation("completed-after-dry-run", "hashing on: after `gwf run --dry-run` the edited, never submitted script of %s is shown as %s" % (victim["name"], dict(cli.parse_status(r3b.out)).get(victim["name"])))
            return
        sim.set_faults([{"cmd": "sbatch", "nth": 1, "kind": rr.choice(["exit1", "stderr_error", "garbage"])}])
        cli.gwf(proj.root, ["run", victim["name"]], env)
        sim.set_faults([])
        r4 = cli.gwf(proj.root, ["status"], env)
        res.mon("rejected_submission_checked")
        got4 = dict(cli.parse_status(r4.out)).get(victim["name"])
        if r4.rc != 0 or got4 != "shouldrun":
            res.violation("completed-after-rejected-submission", "hashing on: the edited script of %s was never accepted by the scheduler (submission rejected) but the target is shown as %s" % (victim["name"], got4))


def run_cli_partial(case, proj, st, res, sim, env, variant, want0):
    """"unchanged since it was last SUBMITTED" when only part of a run was accepted: the scheduler rejects the
    k-th submission (k >= 2) of the run, the accepted jobs are executed, and every accepted target must then be
    decided by files + its recorded script exactly like after a complete run."""
    import random as _r

    from .. import scenario

    rr = _r.Random(case["shape_seeds"][0])
    k = rr.randint(2, len(want0))
    seq0 = sim.seq()
    sim.set_faults([{"cmd": "sbatch", "nth": k, "kind": rr.choice(["exit1", "stderr_error", "garbage"])}])
    r2 = cli.gwf(proj.root, ["run"], env)
    sim.set_faults([])
    jobs = sim.jobs()
    accepted = [jobs[s["job"]]["name"] for s in sim.submissions(seq0)]
    if r2.crashed or r2.rc == 0 or len(accepted) != k - 1 or not set(accepted) <= set(want0):
        res.violation("status-mismatch", "run with the %d-th sbatch rejected: rc %s, accepted %s (expected %d of %s)" % (k, r2.rc, accepted, k - 1, want0), **cli.crash_witness(r2))
        return
    mts = [dict(t, wd=proj.root) for t in case["dag"]["targets"]]
    by = {t["name"]: t for t in mts}
    for _ in range(100):
        run_, act = sorted(sim.runnable()), sorted(sim.running())
        if not run_ and not act:
            break
        for j in run_:
            sim.start(j)
        for j in sorted(sim.running()):
            scenario.create_outputs(by[sim.jobs()[j]["name"]])
            sim.finish(j, 0)
    if sim.pending():
        return
    deps, _, _ = model.dependency_relation(mts)
    mtime = {}
    for p_ in scenario.all_paths(mts):
        try:
            mtime[p_] = os.stat(p_).st_mtime_ns
        except FileNotFoundError:
            mtime[p_] = None
    recs = {}
    for t in mts:
        r = case["records"][t["name"]]
        recs[t["name"]] = model.sha1(t["spec"]) if (r == "same" or t["name"] in accepted) else ("0" * 40 if r == "diff" else None)
    backend = dict(case["backend"])
    for n in accepted:
        backend[n] = "completed"
    want = model.status_table(mts, deps, backend, mtime, True, recs)
    r3 = cli.gwf(proj.root, ["status"], env)
    got = dict(cli.parse_status(r3.out))
    res.mon("partial_runs_checked")
    res.obs("partial_run", {"rejected_position": k, "accepted": accepted, "gwf_status_after_jobs_ran": got, "oracle": want, "spec_hashes": proj.state_files().get("spec-hashes.json")})
    for name, w in want.items():
        res.mon("cli_status_rows")
        if r3.rc != 0 or got.get(name) != w:
            res.violation(
                "accepted-script-forgotten" if name in accepted else "status-mismatch",
                "the %d-th submission of the run was rejected; accepted %s ran to completion; gwf status shows %s as %s, expected %s" % (k, accepted, name, got.get(name), w),
                got=got,
                want=want,
                spec_hashes=proj.state_files().get("spec-hashes.json"),
            )
            return
