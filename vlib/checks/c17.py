"""C17 — cancel hits exactly the selected targets' jobs; one failure stops nothing else."""

import json
import os
import random
import re
import time

from .. import cli, gen, model, scenario
from ..core import Result
from ..simcluster import CANCEL_CMD, SUBMIT_CMD, SimCluster

ID = "C17"
LEVEL = "fault_enumeration"
TECHNIQUE = "runtime monitoring with fault enumeration: cancel commands journalled by simulated schedulers, a failing cancel command injected at each position of the sequence; real worker pool lane"
RULE = (
    "random DAGs (1-8 targets) on simulated Slurm/SGE/LSF with a mix of never-submitted, pending, running and finished "
    "(ok/failed/cancelled) jobs, foreign users' jobs with the same names and near-by ids; `gwf cancel` with no / exact / "
    "glob patterns, -f or prompt answers (y, n, EOF); a failing cancel command (non-zero exit, or exit 0 + 'error:') "
    "injected at position k = 1..m of the cancel sequence (enumerated), plus 'job already gone' errors from the "
    "scheduler itself. Observed: cancel commands received (ids), gwf output and exit code, then `gwf status` and `gwf "
    "run` submissions. Oracle: ids asked to cancel == latest ids of the selected tracked targets, each exactly once and "
    "nobody else's; every target that could not be cancelled is named in the output and all later ones are still "
    "attempted; afterwards no cancelled target is submitted/running and the next run resubmits per the C02 plan; declined "
    "prompt => no cancel command. A lane against a real `gwf workers` pool checks the local backend. Non-trivial: >= 2 "
    "selected tracked targets with a failure strictly inside the sequence, or a mix of >= 3 job situations. distinct = "
    "(backend, situation multiset, selection kind, fault position class, fault kind)."
)
ASSUMPTIONS = ["simulated schedulers; scancel exits 0 even on failure and reports only with --verbose on stderr (the quirk gwf's own comment describes)"]

SITUATIONS = ["never", "pending", "running", "finished_ok", "finished_bad", "cancelled"]


QUICK_BUDGET = {"cases": 400, "deadline_s": 170, "case_timeout_s": 120, "floors": {"cancel_runs": 140, "cancel_cmds_checked": 296, "faults_injected": 32, "followup_runs": 121, "pool_cancels": 4, "resubmitted_before_cancel": 40, "slurm_lagging_accounting_cases": 50}}
THOROUGH_FACTOR = 18  # thorough = the same workload with 18x the cases (floors scale along)


def budget(tier):
    from ..core import scaled_budget

    return scaled_budget(QUICK_BUDGET, tier, THOROUGH_FACTOR, noscale=('pool_cancels',))


def gen_case(rng, idx, tier):
    if idx % 101 == 9:
        return {"lane": "pool", "seed": rng.randrange(1 << 30)}
    sched = rng.choice(["slurm", "slurm", "sge", "lsf"])
    dag = gen.gen_dag(rng, max_targets=8, p_noout=0.05)
    for t in dag["targets"]:
        t["spec"] = "echo %s\n" % t["name"]
    names = [t["name"] for t in dag["targets"]]
    sit = {n: rng.choice(SITUATIONS) for n in names}
    fault = None
    if rng.random() < 0.55:
        fault = {"k": (idx % 4) + 1, "kind": rng.choice(["exit1", "stderr_error", "exit1_silent", "exit1_stdout"])}
    pats = scenario.gen_selection(rng, names) if rng.random() < 0.6 else []
    return {
        "lane": "sim",
        "sched": sched,
        "dag": dag,
        "sit": sit,
        "patterns": pats,
        "force": rng.random() < 0.6,
        "answer": rng.choice(["y\n", "y\n", "n\n", ""]),
        "fault": fault,
        "first_id": rng.choice([3, 40, 1000]),
        "outs_present": rng.random() < 0.4,
    }


def run_case(case):
    if case["lane"] == "pool":
        return run_pool(case)
    import copy

    case = copy.deepcopy(case)  # the resubmission history below rewrites the situations
    res = Result()
    sched = case["sched"]
    with gen.Project() as proj:
        ts = case["dag"]["targets"]
        variant = [{"name": t["name"], "ins_expr": repr(t["ins"]), "outs_expr": repr(t["outs"]), "spec": t["spec"], "route": "target"} for t in ts]
        proj.write_workflow(gen.render_workflow(variant))
        proj.write_config({"backend": sched})
        for s in case["dag"]["sources"]:
            proj.set_file(s, 0)
        if case["outs_present"]:
            for t in ts:
                for o in t["outs"]:
                    proj.set_file(o, 2)
        mts = [dict(t, wd=proj.root) for t in ts]
        deps, _, _ = model.dependency_relation(mts)
        names = [t["name"] for t in ts]
        # SGE: a running job that is deleted may stay listed as "dr" (deletion registered) for a while
        lingers = sched == "sge" and case["first_id"] != 40
        simcfg = {"qdel_lingers": True} if lingers else None
        if sched == "slurm" and case["first_id"] != 40:
            # Slurm: a cancelled job stays in the queue listing as CA while the accounting database lags behind
            simcfg = {"scancel_lingers": True, "acct_lag": True}
            res.mon("slurm_lagging_accounting_cases")
        sim = SimCluster(proj.simdir, sched, first_id=case["first_id"], config=simcfg)
        if lingers:
            res.mon("sge_lingering_cases")
        tracked = {}
        for n in names:
            s = case["sit"][n]
            # foreign job with the same name, live
            if random.Random(hash(n) & 0xFFFF).random() < 0.3:
                sim.add_job(n, phase="running", user="other", sched=sched)
            if s == "never":
                continue
            kw = {"pending": dict(phase="pending"), "running": dict(phase="running"), "finished_ok": dict(phase="finished", exit=0), "finished_bad": dict(phase="finished", exit=1), "cancelled": dict(phase="cancelled")}[s]
            tracked[n] = sim.add_job(n, sched=sched, **kw)
        os.makedirs(os.path.join(proj.root, ".gwf", "logs"), exist_ok=True)
        if tracked:
            proj.write_state(scenario.tracked_file(sched), tracked)
        env = cli.env_for(proj.simdir, (sched,))
        if (len(names) + len(case["patterns"]) + len(case["answer"])) % 3 == 0:
            # an earlier `gwf run` has re-submitted whatever had failed, was cancelled or was stale: "the most recent
            # job" of those targets is the one accepted then (the scheduler's own table is the truth)
            r0 = cli.gwf(proj.root, ["run"], env)
            if r0.rc != 0:
                res.violation("crash", "gwf run (history before the cancel) failed", **cli.crash_witness(r0))
                return res
            for n, jid in scenario.latest_jobs(sim, sched, set(names)).items():
                if tracked.get(n) != jid:
                    tracked[n] = jid
                    case["sit"][n] = "pending"
            res.mon("resubmitted_before_cancel")
        sel = scenario.select(set(names), case["patterns"])
        selected = set(names) if sel is None else set(sel)
        prompt = not case["patterns"] and not case["force"]
        confirmed = (not prompt) or case["answer"].strip().lower() == "y"
        want_ids = {tracked[n] for n in selected if n in tracked}
        live_before = {n for n in selected if case["sit"][n] in ("pending", "running")}
        if case["fault"]:
            sim.set_faults([{"cmd": CANCEL_CMD[sched], "nth": case["fault"]["k"], "kind": case["fault"]["kind"]}])
        seq0 = sim.seq()
        args = ["cancel"] + (["-f"] if case["force"] else []) + case["patterns"]
        r = cli.gwf(proj.root, args, env, stdin=case["answer"])
        sim.set_faults([])
        res.mon("cancel_runs")
        ctx = {"args": args, "sched": sched, "sit": case["sit"], "tracked": tracked, "fault": case["fault"], "answer": case["answer"], "out": (r.out + r.err)[-800:]}
        cmds = sim.commands(seq0, {CANCEL_CMD[sched]})
        subs = sim.commands(seq0, {SUBMIT_CMD[sched]})
        if subs:
            res.violation("cancel-submitted", "gwf cancel submitted jobs", **ctx)
        if not confirmed:
            res.mon("declined_checked")
            if cmds:
                res.violation("declined-but-cancelled", "prompt declined but cancel commands were issued: %s" % [c["argv"] for c in cmds], **ctx)
            if r.rc != 1 or r.crashed:
                res.violation("crash", "declined cancel exited %s" % r.rc, **cli.crash_witness(r))
            res.sig = (sched, "declined")
            return res
        if r.rc != 0:
            res.violation("crash", "gwf cancel failed (rc %s)" % r.rc, **cli.crash_witness(r), **ctx)
            return res
        asked = []
        for c in cmds:
            ids = [a for a in c["argv"] if not a.startswith("-")]
            asked.extend(ids)
            res.mon("cancel_cmds_checked")
        res.obs("cancel", {"args": args, "situations": case["sit"], "tracked": tracked, "ids_asked": asked, "fault": case["fault"], "output": (r.out + r.err)[-600:]})
        if case["fault"] and len(cmds) >= case["fault"]["k"]:
            res.mon("faults_injected")
        if sorted(asked) != sorted(want_ids):
            extra = sorted(set(asked) - want_ids)
            missing = sorted(want_ids - set(asked))
            dup = sorted({a for a in asked if asked.count(a) > 1})
            mech = "cancel-stopped-early" if (missing and not extra and (case["fault"] or any(case["sit"][n] not in ("pending", "running") for n in selected))) else "cancel-wrong-ids"
            res.violation(mech, "cancel asked the scheduler about ids %s; the selected tracked targets' latest ids are %s (extra %s, missing %s, duplicate %s)" % (asked, sorted(want_ids), extra, missing, dup), **ctx)
        # every non-cancellable selected target is reported
        jobs = sim.jobs()
        text = r.out + r.err
        for n in selected:
            cancelled_now = n in tracked and jobs[tracked[n]]["phase"] == "cancelled" and case["sit"][n] in ("pending", "running")
            if not cancelled_now:
                res.mon("uncancellable_checked")
                if not re.search(r"Target %s could not be cancelled" % re.escape(n), text):
                    res.violation("uncancellable-not-reported", "target %s (%s) could not be cancelled but the output does not say so" % (n, case["sit"][n]), **ctx)
        # nobody else's job was touched
        for j in jobs.values():
            if j["user"] != "me" and j["phase"] == "cancelled":
                res.violation("cancel-wrong-ids", "a foreign user's job %s was cancelled" % j["id"], **ctx)
        for n in names:
            if n not in selected and n in tracked and case["sit"][n] in ("pending", "running") and jobs[tracked[n]]["phase"] == "cancelled":
                res.violation("cancel-wrong-ids", "job of unselected target %s was cancelled" % n, **ctx)
        # ---- afterwards: status and run
        r2 = cli.gwf(proj.root, ["status"], env)
        if r2.rc != 0:
            res.violation("crash", "gwf status after cancel failed", **cli.crash_witness(r2), **ctx)
            return res
        table = dict(cli.parse_status(r2.out))
        bview = scenario.backend_view(sim, tracked, sched)
        for n in selected:
            if n in tracked and jobs[tracked[n]]["phase"] == "cancelled" and table.get(n) in ("submitted", "running"):
                res.violation("still-live-after-cancel", "%s was cancelled by the scheduler but is shown as %s" % (n, table.get(n)), **ctx)
        mtime = scenario.disk_mtimes(scenario.all_paths(mts))
        want_submit, want_prereq, st = model.plan(mts, deps, bview, mtime, model.endpoints(deps))
        seq1 = sim.seq()
        r3 = cli.gwf(proj.root, ["run"], env)
        res.mon("followup_runs")
        if r3.rc != 0:
            res.violation("crash", "gwf run after cancel failed", **cli.crash_witness(r3), **ctx)
            return res
        subs2 = scenario.submissions_view(sim, seq1)
        scenario.check_plan(res, subs2, want_submit, want_prereq, tracked, sched, {"after": "cancel", **ctx})
        ntracked_sel = len([n for n in selected if n in tracked])
        fpos = "none"
        if case["fault"]:
            k = case["fault"]["k"]
            fpos = "beyond" if k > len(cmds) else ("first" if k == 1 else ("last" if k == len(cmds) else "inside"))
        res.sig = (sched, sorted(case["sit"][n] for n in selected), bool(case["patterns"]), fpos, (case["fault"] or {}).get("kind"))
        res.nontrivial = (ntracked_sel >= 2 and fpos in ("inside", "first", "last")) or len({case["sit"][n] for n in selected}) >= 3
    return res


def run_pool(case):
    from .. import realpool

    res = Result()
    rng = random.Random(case["seed"])
    with gen.Project() as proj:
        ts = [{"name": "a%d" % i, "ins_expr": "[]", "outs_expr": "['a%d.out']" % i, "spec": "sleep 30\n", "route": "target"} for i in range(3)]
        ts += [{"name": "b0", "ins_expr": "['a0.out']", "outs_expr": "['b0.out']", "spec": "sleep 30\n", "route": "target"}]
        ts += [{"name": "never", "ins_expr": "[]", "outs_expr": "['never.out']", "spec": "true\n", "route": "target"}]
        ts += [{"name": "fin%d" % i, "ins_expr": "[]", "outs_expr": "['fin%d.out']" % i, "spec": "true\n", "route": "target"} for i in range(3)]
        proj.write_workflow(gen.render_workflow(ts))
        with realpool.Pool(proj, ncores=2) as pool:
            env = cli.env_for(None, ())
            # the pool has been used before: it has handed out many more ids than it has been up seconds
            for _ in range(90):
                pool.raw_enqueue("filler", "true", proj.root, time_limit=None, deps=[])
            pool.wait_states(lambda st: all(v == "COMPLETED" for v in st.values()), timeout=40)
            # three targets whose jobs are over by the time anything is cancelled
            rf = cli.gwf(proj.root, ["run", "fin0", "fin1", "fin2"], env, audit=False)
            pool.wait_states(lambda st: all(v == "COMPLETED" for v in st.values()), timeout=40)
            r = cli.gwf(proj.root, ["run", "a0", "a1", "a2", "b0"], env, audit=False)
            if r.rc != 0 or rf.rc != 0:
                res.violation("crash", "gwf -b local run failed", **cli.crash_witness(r))
                return res
            tid = proj.state_files().get("local-backend-tracked.json", {})
            pool.wait_states(lambda st: list(st.values()).count("RUNNING") == 2, timeout=40)
            before = pool.states()
            # cancel only the dependent b0 (it is waiting for the running a0): a0 must not be affected
            r0 = cli.gwf(proj.root, ["cancel", "b0"], env, audit=False)
            pool.wait_states(lambda st: st.get(tid["b0"]) == "CANCELLED", timeout=30)
            time.sleep(2.5)  # a wrongly propagated cancellation needs the kill sequence (>= 1 s) to become visible
            st0 = pool.states()
            res.mon("pool_cancels")
            if st0.get(tid["b0"]) != "CANCELLED":
                res.violation("still-live-after-cancel", "local: b0 is %s after cancel" % st0.get(tid["b0"]))
            if st0.get(tid["a0"]) != before.get(tid["a0"]):
                res.violation("cancel-wrong-ids", "local: cancelling the waiting target b0 changed the state of its dependency a0 from %s to %s" % (before.get(tid["a0"]), st0.get(tid["a0"])), states=st0)
            # the selection mixes a running target, a never-submitted one and targets whose jobs have finished: the
            # ones that cannot be cancelled must not keep the running one from being cancelled
            r = cli.gwf(proj.root, ["cancel", "a0", "never", "fin0", "fin1", "fin2"], env, audit=False)
            res.mon("cancel_runs")
            res.mon("pool_cancels")
            if r.rc != 0:
                res.violation("crash", "gwf cancel failed on the local pool", **cli.crash_witness(r))
                return res
            if "Target never could not be cancelled" not in r.out + r.err:
                res.violation("uncancellable-not-reported", "never-submitted target not reported by cancel on local backend", out=(r.out + r.err)[-400:])
            pool.wait_states(lambda st: st.get(tid["a0"]) == "CANCELLED" and st.get(tid["b0"]) == "CANCELLED", timeout=45)
            st = pool.states()
            if st.get(tid["a0"]) != "CANCELLED":
                res.violation("still-live-after-cancel", "local: a0 is %s after cancel" % st.get(tid["a0"]))
            for n in ("a1", "a2"):
                if st.get(tid[n]) not in ("RUNNING", "SUBMITTED"):
                    res.violation("cancel-wrong-ids", "local: unselected %s is %s after cancelling a0 (before: %s)" % (n, st.get(tid[n]), before.get(tid[n])))
            r2 = cli.gwf(proj.root, ["status"], env, audit=False)
            table = dict(cli.parse_status(r2.out))
            if table.get("a0") in ("submitted", "running"):
                res.violation("still-live-after-cancel", "local: a0 shown as %s after cancel" % table.get("a0"))
            # a client that pipelines "enqueue" and "cancel" in one write: the cancel is processed before the new
            # task's worker had its first step; the task must still end up cancelled, not stay submitted
            nxt = max(pool.states()) + 1
            c = pool.client()
            try:
                c.send_line(
                    json.dumps({"__kind__": "enqueue_task", "name": "pipelined", "script": "sleep 30", "working_dir": proj.root, "time_limit": None, "deps": []})
                    + "\n"
                    + json.dumps({"__kind__": "cancel_task", "tid": nxt})
                    + "\n"
                )
                m = c.recv()
            finally:
                c.close()
            if m and m.get("tid") == nxt:
                pool.wait_states(lambda st: st.get(nxt) == "CANCELLED", timeout=10)
                res.mon("pool_cancels")
                if pool.states().get(nxt) != "CANCELLED":
                    res.violation("still-live-after-cancel", "local: a task cancelled right after it was enqueued (same packet) is %s, not CANCELLED" % pool.states().get(nxt))
            # all the rest with the prompt confirmed
            r = cli.gwf(proj.root, ["cancel"], env, stdin="y\n", audit=False)
            pool.wait_states(lambda st: all(v in ("CANCELLED", "COMPLETED", "FAILED", "KILLED") for v in st.values()), timeout=60)
            st = pool.states()
            res.mon("pool_cancels")
            if any(v in ("RUNNING", "SUBMITTED") for v in st.values()):
                res.violation("still-live-after-cancel", "local: after cancelling everything states are %s" % st)
            # ---- the pool is restarted: ids tracked from the previous instance are unknown to the new one.
            # `gwf cancel stale live`: the stale one cannot be cancelled (reported), the live one must be.
            pool.restart()
            # other clients use the new instance at once; none of their tasks is one of ours
            unrelated = [pool.raw_enqueue("unrelated", "true", proj.root, time_limit=None, deps=[]) for _ in range(140)]
            pool.wait_states(lambda st: all(st.get(t_) == "COMPLETED" for t_ in unrelated), timeout=60)
            stale_names = [n for n in ("a1", "a2")]
            r = cli.gwf(proj.root, ["run", "never"], env, audit=False)  # 'never' gets a live task in the new pool
            tid2 = proj.state_files().get("local-backend-tracked.json", {})
            # make the live task long-running: enqueue another one directly and track it under a2's name is not needed;
            # 'never' runs `true` and finishes at once, so use a raw long task tracked for target a0
            live = pool.raw_enqueue("a0", "sleep 30", proj.root, time_limit=None, deps=[])
            tid2["a0"] = live
            proj.write_state("local-backend-tracked.json", tid2)
            pool.wait_states(lambda st: st.get(live) == "RUNNING", timeout=20)
            # order matters: gwf cancels in the order given by the selection set; name both, stale ones sort around it
            r = cli.gwf(proj.root, ["cancel", "a1", "a0", "a2"], env, audit=False)
            pool.wait_states(lambda st: st.get(live) == "CANCELLED", timeout=15)
            st = pool.states()
            res.mon("pool_cancels")
            if r.rc != 0:
                res.violation("crash", "gwf cancel failed after a pool restart", **cli.crash_witness(r))
            elif not all(("Target %s could not be cancelled" % n_) in (r.out + r.err) for n_ in ("a1", "a2")):
                res.violation("uncancellable-not-reported", "local: targets whose task ids the restarted pool does not know were not reported as not cancellable", output=(r.out + r.err)[-500:])
            elif st.get(live) != "CANCELLED":
                res.violation("cancel-stopped-early", "local: after a pool restart `gwf cancel a1 a0 a2` (a1, a2 tracked from the old pool instance) left the live task of a0 in state %s: an uncancellable target prevented the others from being cancelled" % st.get(live), output=(r.out + r.err)[-500:], states=st)
            hit = [t_ for t_ in unrelated if st.get(t_) != "COMPLETED"]
            if hit:
                res.violation("cancel-wrong-ids", "local: after a pool restart `gwf cancel a1 a0 a2` cancelled %d task(s) of other clients (ids %s)" % (len(hit), hit[:5]), tracked=tid2)
            if not pool.alive():
                res.violation("crash", "worker pool died", log=pool.read_log()[-500:])
        res.sig = ("local", "pool", case["seed"] % 3)
        res.nontrivial = True
    return res
