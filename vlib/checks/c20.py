"""C20 — configuration round-trips, is project-local, and reaches the selected backend."""

import json
import os
import random
import re

from .. import cli, gen, scenario
from ..core import Result
from ..simcluster import ALL_SCHED_CMDS, SimCluster

ID = "C20"
LEVEL = "exploration"
RULE = (
    "roundtrip lane: sequences of 6-16 `gwf config set/get/unset` commands, each its own process, run alternately from "
    "the project root and a subdirectory, over keys (plain, dotted, sharing prefixes such as backend.slurm / "
    "backend.slurmx.y / backend.slurm.log_mode, keys with defaults: verbose, clean_logs, use_spec_hashes) and values "
    "(signed/padded integers, yes/no/true/false in several cases, empty, numeric-looking, long text, JSON-looking); model "
    "dict with the documented coercion; after every command the .gwfconf.json next to workflow.py must equal the model "
    "and `get` must print the model value / default / <not set>. precedence lane: backend from flag / config / guess "
    "(decided by WHICH simulated scheduler commands get called; none of another backend's), verbosity from flag / config / "
    "default (debug lines and 'Would submit' lines present?), colour from flag / config / NO_COLOR / default on a pty (ANSI "
    "sequences present?). settings lane: Slurm log_mode (directives of the submitted script), accounting switch (sacct in "
    "the journal), local host/port (which listener gets the connection), always with other backends' and prefix-sharing "
    "settings present. Non-trivial: roundtrip sequences containing a coerced value, an unset and a dotted key; precedence "
    "cases where two sources disagree. distinct = op-kind string / (flag, config, env) triple."
)
ASSUMPTIONS = [
    "strings that Python's int() accepts beyond ^\\s*[+-]?\\d+\\s*$ (e.g. 1_0): either the integer or the text is accepted",
    "values starting with '-' are passed after '--' as a user would",
    "verbosity classes: debug / info / quiet (warning and error are not distinguished)",
]

KEYS = ["foo", "bar", "a", "a.b", "a.bc", "some.deep", "backend.slurm", "backend.slurm.log_mode", "backend.slurmx.y", "backend.local.port", "verbose", "clean_logs", "use_spec_hashes", "some.deep.dotted.key", "UPPER"]
VALUES = ["5", "-5", "+7", " 8 ", "007", "0", "yes", "no", "true", "false", "Yes", "TRUE", "False", "", "1.5", "1e3", "1_0", "abc", "hello world", "x" * 300, "None", "null", "[1]", "{}", "ü", "full", "merged", "none", "debug", "info", "warning", "12abc", " yes", "٣", "caf\udce9", "\udcff\udcfe raw bytes"]  # the last two: what Python makes of command-line bytes that are not UTF-8
DEFAULTS = {"verbose": "info", "clean_logs": True, "use_spec_hashes": False}


QUICK_BUDGET = {"cases": 800, "deadline_s": 170, "case_timeout_s": 120, "floors": {"config_commands": 1142, "file_comparisons": 1142, "backend_selections": 35, "verbosity_cases": 35, "colour_cases": 35, "settings_cases": 60, "linked_workflow_cases": 20}}
THOROUGH_FACTOR = 10  # thorough = the same workload with 10x the cases (floors scale along)


def budget(tier):
    from ..core import scaled_budget

    return scaled_budget(QUICK_BUDGET, tier, THOROUGH_FACTOR, noscale=())


def gen_case(rng, idx, tier):
    k = idx % 8
    if k in (0, 1, 2):
        ops = []
        for _ in range(rng.randint(6, 16)):
            kind = rng.choice(["set", "set", "set", "get", "get", "unset"])
            ops.append({"op": kind, "key": rng.choice(KEYS), "value": rng.choice(VALUES), "from": rng.choice(["root", "sub"])})
        return {"lane": "roundtrip", "ops": ops, "preexisting": rng.random() < 0.3, "linked_workflow": rng.random() < 0.25}
    if k == 3:
        fams = ["slurm", "sge", "lsf"]
        on_path = rng.choice([["slurm"], ["sge"], ["lsf"], fams, fams])
        return {"lane": "backend", "flag": rng.choice([None, None] + fams), "config": rng.choice([None, None] + fams), "path": on_path}
    if k == 4:
        return {"lane": "verbosity", "flag": rng.choice([None, None, "debug", "info", "warning", "error"]), "config": rng.choice([None, None, "debug", "info", "warning", "error", "bogus"])}
    if k == 5:
        return {"lane": "colour", "flag": rng.choice([None, None, "--no-color", "--use-color"]), "config": rng.choice([None, None, "true", "false"]), "env": rng.choice([None, None, "1"])}
    if k == 6:
        return {"lane": "slurm_settings", "log_mode": rng.choice([None, "full", "merged", "none"]), "accounting": rng.choice([None, "true", "false", "yes", "no"]), "noise": rng.random() < 0.8}
    return {"lane": "local_settings", "which": rng.choice(["port", "port", "hostport"]), "noise": rng.random() < 0.8}


def coerce(v):
    """-> set of acceptable stored values"""
    if re.fullmatch(r"\s*[+-]?\d+\s*", v, re.ASCII):
        return [int(v)]
    if v in ("true", "yes"):
        return [True]
    if v in ("false", "no"):
        return [False]
    try:
        return [int(v), v]
    except ValueError:
        return [v]


def basic_project(proj):
    proj.write_workflow("from gwf import Workflow\ngwf = Workflow()\ngwf.target('t', inputs=[], outputs=['t.out']) << 'echo t'\n")
    os.makedirs(os.path.join(proj.root, "sub", "deeper"), exist_ok=True)


def run_case(case):
    return {"roundtrip": run_roundtrip, "backend": run_backend, "verbosity": run_verbosity, "colour": run_colour, "slurm_settings": run_slurm_settings, "local_settings": run_local_settings}[case["lane"]](case)


def run_roundtrip(case):
    res = Result()
    with gen.Project() as proj:
        basic_project(proj)
        shared = None
        if case.get("linked_workflow"):
            # the project's workflow.py is a symbolic link to a file shared between projects: configuration and
            # state still belong to THIS project (next to the link), never to the directory of the link's target
            shared = os.path.join(proj.base, "shared")
            os.makedirs(shared)
            os.rename(os.path.join(proj.root, "workflow.py"), os.path.join(shared, "workflow.py"))
            os.symlink(os.path.join(shared, "workflow.py"), os.path.join(proj.root, "workflow.py"))
            res.mon("linked_workflow_cases")
        SimCluster(proj.simdir, "slurm")
        env = cli.env_for(proj.simdir, ("slurm",))
        model_ = {}  # key -> list of acceptable values
        if case["preexisting"]:
            proj.write_config({"keep": "me", "n": 3})
            model_ = {"keep": ["me"], "n": [3]}
        kinds = ""
        coerced = dotted = False
        for i, op in enumerate(case["ops"]):
            cwd = proj.root if op["from"] == "root" else os.path.join(proj.root, "sub", "deeper")
            key, val = op["key"], op["value"]
            pre = []
            if (i + len(key)) % 4 == 0:
                pre = [["-b", "slurm"], ["-v", "warning"], ["--no-color"], ["-b", "local", "-v", "error"]][(i + len(val)) % 4]  # flags are for this invocation only
            if op["op"] == "set":
                args = pre + ["config", "set", "--", key, val]
            elif op["op"] == "get":
                args = pre + ["config", "get", key]
            else:
                args = pre + ["config", "unset", key]
            r = cli.gwf(cwd, args, env, audit=False)
            res.mon("config_commands")
            kinds += op["op"][0]
            ctx = {"step": i, "args": args, "from": op["from"], "model": {k: v for k, v in model_.items()}, "history": [(o["op"], o["key"], o["value"]) for o in case["ops"][: i + 1]]}
            if r.rc != 0:
                mech = "crash"
                if op["op"] == "unset" and key in DEFAULTS and key not in model_ and r.exc_type == "KeyError":
                    mech = "unset-default-only-key"
                res.violation(mech, "`gwf %s` exited %s" % (" ".join(args), r.rc), **cli.crash_witness(r), **ctx)
                if mech == "crash":
                    break
                continue
            if op["op"] == "set":
                model_[key] = coerce(val)
                if len(model_[key]) == 1 and model_[key][0] != val:
                    coerced = True
                if "." in key:
                    dotted = True
            elif op["op"] == "unset":
                model_.pop(key, None)
            else:
                got = r.out.rstrip("\n")
                if key in model_:
                    want = [str(v) for v in model_[key]]
                elif key in DEFAULTS:
                    want = [str(DEFAULTS[key])]
                else:
                    want = ["<not set>"]
                # (the harness' stdout replaces what cannot be encoded, e.g. the lone surrogates of non-UTF-8 arguments)
                want = [w.encode("utf-8", "replace").decode("utf-8") for w in want]
                if got not in want:
                    res.violation("get-mismatch", "`gwf config get %s` printed %r; expected %s" % (key, got, want), **ctx)
            # file == model, next to workflow.py, nowhere else
            res.mon("file_comparisons")
            confs = []
            for dp, dn, fn in os.walk(proj.root):
                for f in fn:
                    if f == ".gwfconf.json":
                        confs.append(os.path.relpath(os.path.join(dp, f), proj.root))
            if confs not in ([], [".gwfconf.json"]):
                res.violation("config-location", "config files at %s" % confs, **ctx)
            if shared and sorted(os.listdir(shared)) != ["workflow.py"]:
                res.violation("config-location", "the directory of the link's target now holds %s" % sorted(os.listdir(shared)), **ctx)
            try:
                with open(os.path.join(proj.root, ".gwfconf.json")) as f:
                    data = json.load(f)
            except FileNotFoundError:
                data = {}
            except ValueError:
                res.violation("config-unreadable", "config file is not JSON", **ctx)
                break
            bad = [k for k in set(data) | set(model_) if k not in data or k not in model_ or not any(type(data[k]) is type(a) and data[k] == a for a in model_[k])]
            if bad:
                res.violation("file-mismatch", "after `gwf %s` the file has %s; model %s (differs at %s)" % (" ".join(args), data, model_, bad), **ctx)
                # resynchronise the model with the file to keep going
                model_ = {k: [v] for k, v in data.items()}
        res.obs("final_model", {k: v for k, v in model_.items()})
        res.obs("ops", [(o["op"], o["key"], o["value"][:20], o["from"]) for o in case["ops"]])
        res.sig = kinds
        res.nontrivial = coerced and dotted and "u" in kinds
    return res


def run_backend(case):
    res = Result()
    with gen.Project() as proj:
        basic_project(proj)
        SimCluster(proj.simdir, "slurm")
        cfg = {}
        if case["config"]:
            cfg["backend"] = case["config"]
        # settings of all backends present at the same time
        cfg["backend.slurm.log_mode"] = "merged"
        proj.write_config(cfg)
        for s in ("slurm", "sge", "lsf"):
            proj.write_state(scenario.tracked_file(s), {"t": "5"})
        env = cli.env_for(proj.simdir, tuple(case["path"]))
        args = (["-b", case["flag"]] if case["flag"] else []) + ["status"]
        r = cli.gwf(proj.root, args, env, audit=False)
        sim = SimCluster(proj.simdir, "slurm")
        called = {c["cmd"] for c in sim.commands(0)}
        fam_called = {f for f, cmds in ALL_SCHED_CMDS.items() if called & set(cmds)}
        want = case["flag"] or case["config"]
        if want is None:
            want = case["path"][0] if len(case["path"]) == 1 else None  # guess is only unambiguous with one family installed
        res.mon("backend_selections")
        ctx = {"case": case, "called": sorted(called), "rc": r.rc, "err": r.err[-400:]}
        if want is not None:
            if want in case["path"]:
                if fam_called != {want}:
                    res.violation("backend-precedence", "flag=%s config=%s installed=%s: commands of %s were called; expected exactly %s" % (case["flag"], case["config"], case["path"], sorted(fam_called), want), **ctx)
                if r.rc != 0:
                    res.violation("crash", "gwf status failed with the selected backend %s" % want, **cli.crash_witness(r), **ctx)
            else:
                # selected backend's executables are not installed: a clean error, and no other backend is used
                if fam_called:
                    res.violation("backend-precedence", "selected backend %s is not installed but %s commands were called" % (want, sorted(fam_called)), **ctx)
                if r.crashed:
                    res.violation("crash", "gwf crashed when the selected backend's executables are missing", **cli.crash_witness(r), **ctx)
        res.sig = ("backend", case["flag"], case["config"], tuple(case["path"]))
        res.nontrivial = bool(case["flag"] and case["config"] and case["flag"] != case["config"])
    return res


def verbosity_class(err):
    txt = cli.ANSI.sub("", err)
    if re.search(r"^debug\s", txt, re.M) or "Loading workflow from" in txt:
        return "debug"
    if "Would submit" in txt:
        return "info"
    return "quiet"


def run_verbosity(case):
    res = Result()
    with gen.Project() as proj:
        basic_project(proj)
        SimCluster(proj.simdir, "slurm")
        cfg = {"backend": "slurm"}
        if case["config"]:
            cfg["verbose"] = case["config"]
        proj.write_config(cfg)
        env = cli.env_for(proj.simdir, ("slurm",))
        args = (["-v", case["flag"]] if case["flag"] else []) + ["run", "--dry-run"]
        r = cli.gwf(proj.root, args, env, audit=False)
        res.mon("verbosity_cases")
        cfgv = case["config"] if case["config"] in ("debug", "info", "warning", "error") else None
        level = case["flag"] or cfgv or "info"
        want = {"debug": "debug", "info": "info"}.get(level, "quiet")
        got = verbosity_class(r.err + r.out)
        ctx = {"case": case, "err": r.err[-500:]}
        if r.rc != 0:
            res.violation("crash", "gwf %s failed (verbose config %r)" % (" ".join(args), case["config"]), **cli.crash_witness(r), **ctx)
        elif got != want:
            mech = "verbose-config-ignored" if (case["flag"] is None and cfgv and got == "info") else "verbosity-precedence"
            res.violation(mech, "flag=%s config=%s: output verbosity is %s, expected %s" % (case["flag"], case["config"], got, want), **ctx)
        res.sig = ("verbosity", case["flag"], case["config"])
        res.nontrivial = bool(case["config"]) and case["flag"] != case["config"]
    return res


def run_colour(case):
    res = Result()
    with gen.Project() as proj:
        basic_project(proj)
        SimCluster(proj.simdir, "slurm")
        cfg = {"backend": "slurm"}
        if case["config"]:
            cfg["no_color"] = case["config"] == "true"
        proj.write_config(cfg)
        extra = {"TERM": "xterm"}
        if case["env"]:
            extra["NO_COLOR"] = case["env"]
        env = cli.env_for(proj.simdir, ("slurm",), extra)
        args = ([case["flag"]] if case["flag"] else []) + ["status"]
        r = cli.gwf(proj.root, args, env, audit=False, pty_stdout=True)
        res.mon("colour_cases")
        if case["flag"]:
            no_color = case["flag"] == "--no-color"
        elif case["config"]:
            no_color = case["config"] == "true"
        else:
            no_color = bool(case["env"])
        has = "\x1b[" in r.out
        ctx = {"case": case, "out": r.out[-200:], "err": r.err[-300:]}
        if r.rc != 0:
            res.violation("crash", "gwf status on a pty failed", **cli.crash_witness(r), **ctx)
        elif "shouldrun" not in r.out:
            res.inconclusive = "pty output missing"
        elif has == no_color:
            res.violation("colour-precedence", "flag=%s config no_color=%s NO_COLOR=%s: colours %s; expected %s" % (case["flag"], case["config"], case["env"], "present" if has else "absent", "absent" if no_color else "present"), **ctx)
        # when stdout is not a terminal there are never colours
        r2 = cli.gwf(proj.root, args, env, audit=False)
        if "\x1b[" in r2.out and not (case["flag"] == "--use-color"):
            res.violation("colour-precedence", "colours written to a pipe", out=r2.out[-200:])
        res.sig = ("colour", case["flag"], case["config"], case["env"])
        res.nontrivial = sum(x is not None for x in (case["flag"], case["config"], case["env"])) >= 2
    return res


def run_slurm_settings(case):
    res = Result()
    with gen.Project() as proj:
        basic_project(proj)
        sim = SimCluster(proj.simdir, "slurm")
        cfg = {"backend": "slurm"}
        if case["log_mode"]:
            cfg["backend.slurm.log_mode"] = case["log_mode"]
        if case["accounting"]:
            cfg["backend.slurm.accounting_enabled"] = {"true": True, "yes": True, "false": False, "no": False}[case["accounting"]]
        if case["noise"]:
            cfg.update({"backend.local.port": 1, "backend.local.host": "nowhere.invalid", "backend.slurmx.log_mode": "none", "backend.slurmx.accounting_enabled": False, "backend.sge.bogus": 1, "backendslurm.log_mode": "none"})
        proj.write_config(cfg)
        jid = sim.add_job("old", phase="finished", exit=0)
        proj.write_state("slurm-backend-tracked.json", {"old": jid})
        env = cli.env_for(proj.simdir, ("slurm",))
        r = cli.gwf(proj.root, ["run"], env, audit=False)
        res.mon("settings_cases")
        ctx = {"case": case, "config": cfg}
        if r.rc != 0:
            mech = "namespace-prefix" if (case["noise"] and r.exc_type == "TypeError") else "crash"
            res.violation(mech, "gwf run failed with other backends' settings present" if case["noise"] else "gwf run failed", **cli.crash_witness(r), **ctx)
            return res
        subs = sim.submissions(0)
        if not subs:
            res.violation("crash", "nothing submitted", **ctx)
            return res
        job = sim.jobs()[subs[-1]["job"]]
        m = dict((k, v) for k, v in job["directives"]["opts"])
        logs = os.path.join(proj.root, ".gwf", "logs")
        mode = case["log_mode"] or "full"
        want = {"full": (os.path.join(logs, "t.stdout"), os.path.join(logs, "t.stderr")), "merged": (os.path.join(logs, "t.stdout"), None), "none": ("/dev/null", None)}[mode]
        if (m.get("output"), m.get("error")) != want:
            res.violation("setting-not-applied", "log_mode %s: script has output=%s error=%s; expected %s" % (mode, m.get("output"), m.get("error"), want), **ctx)
        acct = True if case["accounting"] is None else case["accounting"] in ("true", "yes")
        sacct = any(c["cmd"] == "sacct" for c in sim.commands(0))
        if sacct != acct:
            res.violation("setting-not-applied", "accounting_enabled=%s: sacct %s called" % (case["accounting"], "was" if sacct else "was not"), **ctx)
        res.sig = ("slurm", case["log_mode"], case["accounting"], case["noise"])
        res.nontrivial = case["noise"] and (case["log_mode"] is not None or case["accounting"] is not None)
    return res


def run_local_settings(case):
    from ..recserver import RecServer

    res = Result()
    with gen.Project() as proj, RecServer() as good, RecServer() as decoy:
        basic_project(proj)
        cfg = {"backend": "local", "backend.local.port": good.port}
        if case["which"] == "hostport":
            cfg["backend.local.host"] = "127.0.0.1"
        if case["noise"]:
            cfg.update({"backend.slurm.port": decoy.port, "backend.localx.port": decoy.port, "backend.slurm.log_mode": "none", "backend.lsf.host": "nowhere.invalid"})
        proj.write_config(cfg)
        env = cli.env_for(None, ())
        r = cli.gwf(proj.root, ["status"], env, audit=False, timeout=30)
        res.mon("settings_cases")
        ctx = {"case": case, "config": cfg, "good": good.connections, "decoy": decoy.connections}
        if r.rc != 0:
            mech = "namespace-prefix" if (case["noise"] and r.exc_type == "TypeError") else "crash"
            res.violation(mech, "gwf -b local status failed", **cli.crash_witness(r), **ctx)
        elif good.connections < 1 or decoy.connections:
            res.violation("setting-not-applied", "configured listener got %d connections, decoy got %d" % (good.connections, decoy.connections), **ctx)
        res.sig = ("local", case["which"], case["noise"])
        res.nontrivial = case["noise"]
    return res
