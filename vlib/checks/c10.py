"""C10 — job scripts run the spec faithfully with the resolved resource options."""

import os
import random
import re
import subprocess

from .. import cli, gen
from ..core import Inconclusive, Result
from ..simcluster import SimCluster

ID = "C10"
LEVEL = "exploration"
RULE = (
    "one to three template-made targets per case on simulated Slurm (log modes full/merged/none), SGE and LSF; gwf is "
    "invoked from a foreign directory with -f. Specs: multi-line, with/without trailing newline, single/double quotes, "
    "'$' variables, backslashes, here-docs, unique stdout/stderr tokens, optionally a failing command in the middle "
    "followed by a marker. Working directories: names with spaces, quotes, '$', ';', '&', '*', '(', unicode (all accepted "
    "by target validation), created on disk. Options from four sources (backend default < Workflow(defaults) < template "
    "< keyword) incl. None and unknown names. Observed: script on the scheduler's stdin, the simulator's own parse of "
    "its directives, gwf's warnings, and the result of EXECUTING the script with bash from the submit directory with "
    "stdout/stderr redirected as the script's own directives say; `gwf logs`; .gwf/logs listing around runs with planted "
    "logs. Oracle: independent option resolution + per-scheduler directive expectations; reference execution of the bare "
    "spec with `bash -e` in the working directory (stdout, stderr, exit status must match). Non-trivial: an option "
    "overridden at >= 2 levels, a None, an unknown option and a working directory that needs quoting. distinct = (backend, "
    "log mode, option-source pattern, wd character classes)."
)
ASSUMPTIONS = [
    "the project directory itself (where logs go) has no characters that need quoting in a directive",
    "simulated schedulers; SGE '-w v' is accepted and the job still submitted",
    "SGE per-core memory: floor or ceil of total/cores in the same unit is accepted",
]

DEFAULTS = {
    "slurm": {"cores": 1, "memory": "1g", "walltime": "01:00:00", "nodes": None, "queue": None, "account": None, "constraint": None, "mail_type": None, "mail_user": None, "qos": None, "gres": None},
    "sge": {"cores": 1, "memory": "1g", "walltime": "01:00:00", "queue": None, "account": None},
    "lsf": {"queue": "normal", "memory": "4GB", "cores": 1},
}
VALUES = {
    "cores": [1, 2, 3, 4, 8],
    "memory": ["4g", "8g", "16g", "500m", "12g"],
    "walltime": ["02:00:00", "00:10:00", "12:00:00"],
    "queue": ["short", "long", "gpu"],
    "account": ["proj1", "proj2"],
    "constraint": ["avx2", "intel"],
    "nodes": [1, 2],
    "mail_type": ["END", "FAIL"],
    "mail_user": ["a@b.org"],
    "qos": ["high"],
    "gres": ["gpu:1"],
}
LSF_MEM = ["4GB", "8GB", "16GB", "2GB"]
UNKNOWN = ["walltme", "gpu", "threads", "foo_bar"]
SLURM_MAP = {"cores": "cpus-per-task", "memory": "mem", "walltime": "time", "queue": "partition", "account": "account", "constraint": "constraint", "nodes": "nodes", "mail_type": "mail-type", "mail_user": "mail-user", "qos": "qos", "gres": "gres"}

WD_NAMES = ["plain", "{queue}", "x{cores}y", "with space", "semi;colon", "amp&ersand", "dollar$HOME", "star*", "single'quote", 'double"quote', "paren(s)", "back`tick", "ünïcödé", "tab-less but  two spaces", "#hash", "~tilde", "a|b", "x>y", "br{a,b}ce", "q?mark", "excl!"]


QUICK_BUDGET = {"cases": 960, "deadline_s": 170, "case_timeout_s": 120, "floors": {"scripts_checked": 684, "scripts_executed": 684, "directives_checked": 4152, "logs_cmd_checked": 548, "logclean_checked": 336, "partial_run_logclean_checked": 180}}
THOROUGH_FACTOR = 12  # thorough = the same workload with 12x the cases (floors scale along)


def budget(tier):
    from ..core import scaled_budget

    return scaled_budget(QUICK_BUDGET, tier, THOROUGH_FACTOR, noscale=())


def gen_spec(rng, uid):
    lines = ["echo TOK1-%s" % uid, "pwd", "echo ERR1-%s >&2" % uid]
    extras = [
        "X='a b  c'; echo \"$X\"",
        "echo 'single $NOTEXPANDED \"dq\"'",
        'echo "back\\\\slash \\$escaped"',
        "cat <<EOF\nheredoc $((1+2)) line\nEOF",
        "cat <<'EOF'\nraw $heredoc `not run`\nEOF",
        "printf '%s\\n' one two",
        "for i in 1 2; do echo loop$i; done",
        "echo $GWF_UNDEFINED_VAR_X end",
        "(exit 0); echo sub",
        "echo a; echo b >&2",
        "true && echo and",
        "cores=7; queue=q1; memory=9; echo ${cores} ${queue} ${memory} {cores} {job_name}",
        "echo '{std_out} {std_err}' ${GWF_UNSET:-{queue}}",
    ]
    for e in rng.sample(extras, rng.randint(0, 4)):
        lines.append(e)
    fails = rng.random() < 0.45
    if fails:
        lines.append(rng.choice(["false", "(exit 3)", "test -e /nonexistent/zzz", "exit 4"]))
        lines.append("echo MARKER-AFTER-FAILURE-%s" % uid)
    else:
        lines.append("echo LAST-%s" % uid)
    spec = "\n".join(lines)
    tail = rng.choice(["\n", "", "\n\n"])
    if lines[-1] == "EOF":
        tail = "\n"
    lead = rng.choice(["", "\n", "\n\n"])
    return lead + spec + tail, fails


# project directory names: braces that look like the backends' own template placeholders.  Names with whitespace,
# quotes or '#' are NOT generated: the log paths appear unquoted in #SBATCH/#$/#BSUB lines and what happens then is
# decided by each scheduler's own directive tokenizer, which the simulators can only guess (DESIGN section 5).
PROJ_NAMES = ["proj", "proj", "proj", "batch-{a}", "{cohort}_{year}", "{memory}", "{std_out}", "p-{queue}.{cores}", "x{job_name}y"]


def gen_case(rng, idx, tier):
    sched = rng.choice(["slurm", "slurm", "slurm", "sge", "lsf"])
    log_mode = rng.choice(["full", "full", "merged", "none"]) if sched == "slurm" else "full"
    known = list(DEFAULTS[sched])
    targets = []
    wf_defaults = {}
    for o in known + UNKNOWN[:1]:
        if rng.random() < 0.25:
            wf_defaults[o] = pick(rng, sched, o)
    for i in range(rng.randint(1, 3)):
        uid = "%06x" % rng.randrange(1 << 24)
        spec, fails = gen_spec(rng, uid)
        topts, kopts = {}, {}
        for o in known:
            if rng.random() < 0.3:
                topts[o] = pick(rng, sched, o)
            if rng.random() < 0.3:
                kopts[o] = pick(rng, sched, o)
        for u in UNKNOWN:
            if rng.random() < 0.12:
                (topts if rng.random() < 0.5 else kopts)[u] = rng.choice([1, "x", None])
        targets.append({"name": "tgt%d" % i if rng.random() < 0.8 else "tgt.%d_x" % i, "wd_name": PROJECT_DIR if rng.random() < 0.2 else rng.choice(WD_NAMES), "spec": spec, "fails": fails, "uid": uid, "topts": topts, "kopts": kopts})
    return {"sched": sched, "log_mode": log_mode, "wf_defaults": wf_defaults, "targets": targets, "clean_logs": rng.choice([True, True, False]), "accounting": rng.random() < 0.8, "proj_name": rng.choice(PROJ_NAMES)}


def pick(rng, sched, o):
    if rng.random() < 0.15:
        return None
    if o in UNKNOWN:
        return rng.choice([1, "x"])
    if sched == "lsf" and o == "memory":
        return rng.choice(LSF_MEM)
    return rng.choice(VALUES[o])


def resolve_options(sched, wf_defaults, topts, kopts):
    """-> (resolved known options without None, unknown option names mentioned)"""
    merged = dict(DEFAULTS[sched])
    unknown = set()
    for src in (wf_defaults, topts, kopts):
        for k, v in src.items():
            merged[k] = v
    out = {}
    for k, v in merged.items():
        if k not in DEFAULTS[sched]:
            unknown.add(k)
        elif v is not None:
            out[k] = v
    return out, unknown


def expected_directives(sched, opts):
    """-> dict directive-key -> set of acceptable value strings"""
    exp = {}
    if sched == "slurm":
        for o, v in opts.items():
            exp[SLURM_MAP[o]] = {str(v)}
    elif sched == "sge":
        cores = opts.get("cores", 1)
        if "cores" in opts:
            exp[("pe",)] = {"smp %s" % opts["cores"]}
        lvals = []
        if "memory" in opts:
            m = re.fullmatch(r"(\d+)(\D*)", str(opts["memory"]))
            num, unit = int(m.group(1)), m.group(2)
            lo, hi = num // cores, -(-num // cores)
            exp[("l", "h_vmem")] = {"h_vmem=%d%s" % (lo, unit), "h_vmem=%d%s" % (hi, unit)}
        if "walltime" in opts:
            exp[("l", "h_rt")] = {"h_rt=%s" % opts["walltime"]}
        if "queue" in opts:
            exp[("q",)] = {str(opts["queue"])}
        if "account" in opts:
            exp[("P",)] = {str(opts["account"])}
    else:
        if "memory" in opts:
            m = opts["memory"]
            exp[("M",)] = {str(m)}
            exp[("R",)] = {"select[mem>%s] rusage[mem=%s] span[hosts=1]" % (m, m)}
        if "cores" in opts:
            exp[("n",)] = {str(opts["cores"])}
        if "queue" in opts:
            exp[("q",)] = {str(opts["queue"])}
    return exp


def observed_directives(sched, job):
    """directive multimap from the simulator's own parse of the script header"""
    obs = {}
    for k, v in job["directives"]["opts"]:
        if sched == "slurm":
            if k in ("job-name", "output", "error", "parsable", "dependency"):
                continue
            obs.setdefault(k, []).append(str(v))
        elif sched == "sge":
            if k in ("N", "V", "w", "cwd", "o", "e", "terse", "hold_jid"):
                continue
            if k == "l":
                obs.setdefault(("l", str(v).split("=")[0]), []).append(str(v))
            else:
                obs.setdefault((k,), []).append(str(v))
        else:
            if k in ("oo", "eo", "J", "w"):
                continue
            obs.setdefault((k,), []).append(str(v))
    return obs


PROJECT_DIR = "@PROJECT@"  # wd_name of a target that lives in the project directory itself (no working_dir given)


def wd_of(proj, t):
    return proj.root if t["wd_name"] == PROJECT_DIR else os.path.join(proj.root, "wds", t["wd_name"])


def render(case, proj):
    lines = ["from gwf import Workflow, AnonymousTarget", "gwf = Workflow(defaults=%r)" % (case["wf_defaults"],), ""]
    for t in case["targets"]:
        wd = wd_of(proj, t)
        kw = "".join(", %s=%r" % (k, v) for k, v in t["kopts"].items())
        wdarg = "" if t["wd_name"] == PROJECT_DIR else ", working_dir=%r" % wd
        lines.append("gwf.target_from_template(%r, AnonymousTarget(inputs=[], outputs=[], options=%r, spec=%r%s)%s)" % (t["name"], t["topts"], t["spec"], wdarg, kw))
    return "\n".join(lines) + "\n"


def reference_run(spec, wd):
    p = subprocess.run(["/bin/bash", "-e", "/dev/stdin"], input=spec.encode(), cwd=wd, capture_output=True, env={"PATH": "/usr/bin:/bin", "HOME": "/nonexistent", "LANG": "C.UTF-8"}, timeout=30)
    return p.returncode, p.stdout, p.stderr


def run_case(case):
    res = Result()
    sched = case["sched"]
    with gen.Project(name=case.get("proj_name", "proj")) as proj:
        for t in case["targets"]:
            os.makedirs(wd_of(proj, t), exist_ok=True)
        proj.write_workflow(render(case, proj))
        cfg = {"backend": sched, "clean_logs": case["clean_logs"]}
        if sched == "slurm":
            cfg["backend.slurm.log_mode"] = case["log_mode"]
        set_off_via_cli = (not case["clean_logs"]) and len(case["targets"]) % 2 == 1
        if set_off_via_cli:
            del cfg["clean_logs"]
        proj.write_config(cfg)
        if set_off_via_cli:  # switched off the way the documentation shows: gwf config set clean_logs no
            rcfg = cli.gwf(proj.root, ["config", "set", "clean_logs", ["no", "false"][len(case["targets"][0]["uid"]) % 2 if False else (int(case["targets"][0]["uid"], 16) % 2)]], cli.env_for(None, ()), audit=False)
            if rcfg.rc != 0:
                res.violation("crash", "gwf config set clean_logs failed", **cli.crash_witness(rcfg))
                return res
        logs = os.path.join(proj.root, ".gwf", "logs")
        os.makedirs(logs, exist_ok=True)
        planted = ["gone.stdout", "gone.stderr", "onlyerr.stderr", case["targets"][0]["name"] + ".stdout", case["targets"][0]["name"] + ".stderr", "notes.txt", "gone2.stdout"]
        for p in planted:
            with open(os.path.join(logs, p), "w") as f:
                f.write("old %s\n" % p)
        foreign = os.path.join(proj.base, "elsewhere")
        os.makedirs(foreign, exist_ok=True)
        sim = SimCluster(proj.simdir, sched)
        env = cli.env_for(proj.simdir, (sched,))
        wf = os.path.join(proj.root, "workflow.py")
        r = cli.gwf(foreign, ["-f", wf, "run"], env)
        names = [t["name"] for t in case["targets"]]
        # ---- log cleaning (safety)
        after = set(os.listdir(logs))
        removed = set(planted) - after
        res.mon("logclean_checked")
        if not case["clean_logs"] and removed:
            res.violation("logclean-when-off", "clean_logs is off but the run deleted %s" % sorted(removed))
        for p in removed:
            stem, ext = os.path.splitext(p)
            if stem in names or ext not in (".stdout", ".stderr"):
                res.violation("logclean-wrong-file", "the run deleted %s, which is not a log of a removed target" % p, targets=names)
        if r.rc != 0:
            mech = "crash"
            if sched == "lsf" and "{" in r.err:
                mech = "lsf-none-placeholder"
            if sched == "sge" and r.exc_type == "KeyError" and "cores" in r.err:
                mech = "sge-cores-none"
            res.violation(mech, "gwf run failed", **cli.crash_witness(r), workflow=render(case, proj))
            return res
        jobs = sim.jobs()
        subs = {jobs[s["job"]]["name"]: jobs[s["job"]] for s in sim.submissions(0)}
        srcpat = []
        wdclasses = set()
        for t in case["targets"]:
            job = subs.get(t["name"])
            if job is None:
                res.violation("not-submitted", "target %s was not submitted" % t["name"])
                continue
            res.mon("scripts_checked")
            res.obs("script:" + t["name"], job["script"][:1500])
            opts, unknown = resolve_options(sched, case["wf_defaults"], t["topts"], t["kopts"])
            exp = expected_directives(sched, opts)
            obs = observed_directives(sched, job)
            for k, want in exp.items():
                res.mon("directives_checked")
                got = obs.get(k, [])
                if not got:
                    res.violation("directive-missing", "%s: directive %s missing (resolved options %s)" % (t["name"], k, opts), script=job["script"][:800])
                elif len(set(got)) > 1:
                    res.violation("directive-conflict", "%s: directive %s given with conflicting values %s" % (t["name"], k, got), script=job["script"][:800])
                elif got[0] not in want:
                    res.violation("directive-value", "%s: directive %s = %r, expected %s (sources: wf %s, template %s, kw %s)" % (t["name"], k, got[0], sorted(want), case["wf_defaults"], t["topts"], t["kopts"]), script=job["script"][:800])
            for k in obs:
                if k not in exp:
                    res.violation("directive-unexpected", "%s: unexpected resource directive %s=%s (option resolved to None or unknown must be omitted)" % (t["name"], k, obs[k]), script=job["script"][:800])
            for u in unknown:
                res.mon("unknown_options_checked")
                if not re.search(r"Option '%s' used in '%s'" % (re.escape(u), re.escape(t["name"])), r.err):
                    res.violation("unknown-option-no-warning", "%s: no warning names the unknown option %r" % (t["name"], u), err=r.err[-600:])
            # log directives
            m = dict((k, v) for k, v in job["directives"]["opts"])
            so, se = os.path.join(logs, t["name"] + ".stdout"), os.path.join(logs, t["name"] + ".stderr")
            if sched == "slurm":
                want_log = {"full": (so, se), "merged": (so, None), "none": ("/dev/null", None)}[case["log_mode"]]
                if (m.get("output"), m.get("error")) != want_log:
                    res.violation("log-directive", "%s: output/error directives %s, expected %s for log mode %s" % (t["name"], (m.get("output"), m.get("error")), want_log, case["log_mode"]))
            elif sched == "sge":
                if (m.get("o"), m.get("e")) != (so, se):
                    res.violation("log-directive", "%s: -o/-e %s" % (t["name"], (m.get("o"), m.get("e"))))
            else:
                if (m.get("oo"), m.get("eo")) != (so, se):
                    res.violation("log-directive", "%s: -oo/-eo %s" % (t["name"], (m.get("oo"), m.get("eo"))))
            # ---- execute
            wd = wd_of(proj, t)
            ref_rc, ref_out, ref_err = reference_run(t["spec"], wd)
            sim.start(job["id"])
            info = sim.finish(job["id"], real=True)
            res.mon("scripts_executed")
            res.obs("exec:" + t["name"], {"wd": t["wd_name"], "rc": info["rc"], "reference_rc": ref_rc, "stdout_log": info["out"]})
            outp, errp = info["out"], info["err"]

            def rd(p):
                if p == "/dev/null":
                    return None
                try:
                    with open(p, "rb") as f:
                        return f.read()
                except FileNotFoundError:
                    return b"<<missing>>"

            got_out, got_err = rd(outp), rd(errp)
            quoting = any(c in t["wd_name"] for c in " ;&$*'\"()`#~|>{?!")
            mech_exec = "cd-unquoted" if (quoting and (got_out is None or wd.encode() not in (got_out or b""))) else "exec-mismatch"
            if (info["rc"] != 0) != (ref_rc != 0):
                res.violation(mech_exec, "%s: job script exit status %s, the spec alone exits %s (wd %r)" % (t["name"], info["rc"], ref_rc, t["wd_name"]), script=job["script"][-600:], stderr=(got_err or b"")[-300:].decode("utf-8", "replace"))
            if outp != "/dev/null":
                if outp == errp:
                    ok = sorted((got_out or b"").splitlines()) == sorted((ref_out + ref_err).splitlines())
                elif info.get("mode", None) == "a" or sched == "sge":
                    ok = (got_out or b"").endswith(ref_out) and (got_err or b"").endswith(ref_err)  # SGE appends to -o/-e files
                else:
                    ok = got_out == ref_out and got_err == ref_err
                if not ok:
                    res.violation(mech_exec, "%s: output of the job script differs from the spec run verbatim in the working directory %r" % (t["name"], t["wd_name"]), got_out=(got_out or b"")[-400:].decode("utf-8", "replace"), want_out=ref_out[-400:].decode("utf-8", "replace"), got_err=(got_err or b"")[-300:].decode("utf-8", "replace"), want_err=ref_err[-300:].decode("utf-8", "replace"), script=job["script"][-500:])
                if t["fails"] and b"MARKER-AFTER-FAILURE" in (got_out or b""):
                    res.violation("no-stop-on-failure", "%s: commands after the failing command were executed" % t["name"], script=job["script"][-500:])
            # ---- gwf logs
            if sched != "slurm" or case["log_mode"] in ("full", "merged"):
                rl = cli.gwf(foreign, ["-f", wf, "logs", "--no-pager", t["name"]], env, audit=False)
                res.mon("logs_cmd_checked")
                want = ref_out if outp != errp else None
                if rl.rc != 0 or ("TOK1-%s" % t["uid"]) not in rl.out:
                    res.violation("gwf-logs", "`gwf logs %s` does not show the latest run's stdout" % t["name"], **cli.crash_witness(rl), out=rl.out[-300:])
                elif want is not None and not (rl.out.encode().rstrip(b"\n") == want.rstrip(b"\n") or (sched == "sge" and rl.out.encode().rstrip(b"\n").endswith(want.rstrip(b"\n")))):
                    res.violation("gwf-logs", "`gwf logs %s` differs from what the job wrote" % t["name"], out=rl.out[-300:], want=want[-300:].decode("utf-8", "replace"))
                if sched != "slurm" or case["log_mode"] == "full":
                    rl = cli.gwf(foreign, ["-f", wf, "logs", "--no-pager", "-e", t["name"]], env, audit=False)
                    if rl.rc != 0 or ("ERR1-%s" % t["uid"]) not in rl.out:
                        res.violation("gwf-logs", "`gwf logs -e %s` does not show the latest run's stderr" % t["name"], **cli.crash_witness(rl), out=rl.out[-300:])
            levels = sum(1 for o in DEFAULTS[sched] if sum(o in s for s in (case["wf_defaults"], t["topts"], t["kopts"])) >= 2)
            hasnone = any(v is None for s in (case["wf_defaults"], t["topts"], t["kopts"]) for v in s.values())
            srcpat.append((levels >= 1, hasnone, bool(unknown), quoting))
            wdclasses.add("".join(sorted(set(c for c in t["wd_name"] if not c.isalnum()))))
        # ---- a later run of ONE named target: logs of the other (current) targets stay, whatever the run covers
        if len(case["targets"]) >= 2:
            for stale in ("gone3.stdout", "gone3.stderr"):
                with open(os.path.join(logs, stale), "w") as f:
                    f.write("old\n")
            before_l = set(os.listdir(logs))
            r5 = cli.gwf(foreign, ["-f", wf, "run", case["targets"][-1]["name"]], env)
            after_l = set(os.listdir(logs))
            res.mon("partial_run_logclean_checked")
            lost = sorted(p for p in before_l - after_l if os.path.splitext(p)[0] in names)
            if r5.rc != 0:
                res.violation("crash", "gwf run <one target> failed", **cli.crash_witness(r5))
            elif lost:
                res.violation("logclean-wrong-file", "`gwf run %s` deleted %s: logs of targets that are still part of the workflow" % (case["targets"][-1]["name"], lost), targets=names)
            elif case["clean_logs"] is False and before_l - after_l:
                res.violation("logclean-when-off", "clean_logs is off but the partial run deleted %s" % sorted(before_l - after_l))
        res.sig = (sched, case["log_mode"], sorted(srcpat), sorted(wdclasses))
        res.nontrivial = any(all(p) for p in srcpat)
    return res
