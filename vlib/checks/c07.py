"""C07 — prerequisites reach each scheduler intact, so no job starts on unfinished inputs."""

import json
import os
import random
import re

from .. import cli, gen, model, scenario
from ..core import Result
from ..simcluster import SimCluster

ID = "C07"
LEVEL = "exploration"
RULE = (
    "random DAGs (2-8 targets, up to 5 prerequisites per job) on simulated Slurm/SGE/LSF; 2-3 `gwf run` rounds with "
    "different selections; between rounds and at the end a seeded adversary takes ANY action the simulator's own reading "
    "of the dependency argument allows (start a runnable job - preferred, so a missing hold is exposed at once; finish "
    "ok - outputs really created; fail; cancel), so prerequisites from earlier invocations are still pending/running "
    "when dependents are added. Syntactic oracle: dependency argument matches the scheduler's exact grammar "
    "(afterok:ID(:ID)*, hold_jid ID(,ID)*, done(ID)( && done(ID))*) over exactly the ids the scheduler printed for the "
    "incomplete direct deps (C02 oracle). Semantic oracle over the journal: start(J) after end(P) for every expected "
    "prerequisite P; on Slurm/LSF J has no start event if some P failed or was cancelled. Local lanes: the real LocalOps client "
    "against a recording server (deps list == ids the server returned), and the pool's real Scheduler on the virtual-time "
    "harness with late submissions on already ended prerequisites. Non-trivial: a job with >= 2 prerequisites, a prerequisite from "
    "an earlier invocation, and a failed prerequisite. distinct = (backend, prerequisite-count pattern, failure pattern)."
)
ASSUMPTIONS = ["the simulators' dependency semantics (written from the schedulers' documentation) stand in for the real schedulers"]

RAW_RX = {
    "slurm": re.compile(r"afterok:\d+(:\d+)*"),
    "sge": re.compile(r"\d+(,\d+)*"),
    "lsf": re.compile(r"done\(\d+\)( && done\(\d+\))*"),
}


QUICK_BUDGET = {"cases": 960, "deadline_s": 170, "case_timeout_s": 120, "floors": {"submissions": 1434, "start_events_checked": 825, "never_started_checked": 120, "local_enqueues": 300, "pool_spawns": 165, "purged_prerequisites": 5}}
THOROUGH_FACTOR = 12  # thorough = the same workload with 12x the cases (floors scale along)


def budget(tier):
    from ..core import scaled_budget

    return scaled_budget(QUICK_BUDGET, tier, THOROUGH_FACTOR, noscale=())


def gen_case(rng, idx, tier):
    if idx % 5 == 3:
        # the pool side of the local backend: the real Scheduler on the virtual-time harness, biased to
        # late submissions whose prerequisites already ended (ok / failed / cancelled / timed out)
        from .. import poolcase

        c = poolcase.gen_pool_case(rng, faults=False, bias={"exit": 5, "enqueue": 2, "cancel": 2}, max_tasks=8)
        c["sched"] = "localpool"
        return c
    if idx % 5 == 4:
        sched = "local"
    else:
        sched = rng.choice(["slurm", "slurm", "sge", "lsf"])
    dag = gen.gen_dag(rng, n_targets=rng.randint(2, 8), p_noout=0.08, max_ins=5, shapes=rng.choice(["random", "random", "diamond", "chain", "fan"]))
    ticks = {s: 0 for s in dag["sources"]}
    for t in dag["targets"]:
        for o in t["outs"]:
            ticks[o] = rng.choice([None, None, None, 1])
        t["spec"] = "echo %s\n" % t["name"]
    names = [t["name"] for t in dag["targets"]]
    rounds = []
    for r in range(rng.randint(2, 3)):
        rounds.append({"patterns": scenario.gen_selection(rng, names), "adv_seed": rng.randrange(1 << 30), "adv_steps": rng.randint(0, len(names) + 2)})
    return {"sched": sched, "dag": dag, "ticks": ticks, "rounds": rounds, "final_seed": rng.randrange(1 << 30), "first_id": rng.choice([0, 0, 1, 12, 123, 1000])}  # scheduler job ids (strings); the local lane uses time-based ids


def adversary_step(adv, sim, by, res, p_fail=0.25):
    run_, act, pend = sorted(sim.runnable()), sorted(sim.running()), sorted(sim.pending())
    choices = [("start", i) for i in run_] * 4 + [("end", i) for i in act] * 2 + ([("cancel", i) for i in (pend + act)[:1]] if adv.random() < 0.2 or not (run_ or act) else [])
    if not choices:
        return False
    kind, jid = adv.choice(choices)
    if kind == "start":
        sim.start(jid)
        res.count("adv_start")
    elif kind == "end":
        lingering = [j["id"] for j in sim.jobs().values() if j.get("in_queue")]
        for lj in lingering:
            if adv.random() < 0.5:
                sim.update_job(lj, in_queue=False, code=None)  # the job finally leaves the live queue
        if sim.sched == "slurm" and adv.random() < 0.2:
            # finishes successfully, accounting already says COMPLETED, but squeue still lists it as CG
            scenario.create_outputs(by[sim.jobs()[jid]["name"]])
            sim.finish(jid, 0)
            sim.update_job(jid, in_queue=True, code="CG")
            res.count("adv_ok_lingering")
        elif adv.random() < p_fail:
            sim.finish(jid, adv.choice([1, 137]))
            res.count("adv_fail")
        else:
            scenario.create_outputs(by[sim.jobs()[jid]["name"]])
            sim.finish(jid, 0)
            res.count("adv_ok")
    else:
        sim.cancel(jid)
        res.count("adv_cancel")
    return True


def run_localpool(case):
    import shutil
    import tempfile

    from .. import poolcase, vloop

    res = Result()
    d = tempfile.mkdtemp(prefix="gwfv-pool-")
    try:
        h = vloop.run_harness(case, d)
        poolcase.eval_c11(h, res)
        res.monitors["pool_spawns"] = res.monitors.pop("spawn_events", 0)
        res.monitors.pop("bad_dep_tasks", None)
        for v in res.violations:
            v["mech"] = "localpool:" + v["mech"]
        res.sig = ("localpool", poolcase.event_string(h, 40))
        late = any(e["kind"] == "enqueue" and e["deps"] for e in h.events)
        res.nontrivial = late and any(e["kind"] == "exit" and e["code"] != 0 for e in h.events)
    finally:
        shutil.rmtree(d, ignore_errors=True)
    return res


def run_case(case):
    if case["sched"] == "localpool":
        return run_localpool(case)
    if case["sched"] == "local":
        return run_local(case)
    res = Result()
    sched = case["sched"]
    with gen.Project() as proj:
        ts = case["dag"]["targets"]
        sr = random.Random(case["final_seed"])
        variant = [{"name": t["name"], "ins_expr": repr(gen.respell_list(sr, t["ins"], proj.root)), "outs_expr": repr(gen.respell_list(sr, t["outs"], proj.root, 0.1)), "spec": t["spec"], "route": "target"} for t in ts]
        proj.write_workflow(gen.render_workflow(variant))
        proj.write_config({"backend": sched})
        for f, tk in case["ticks"].items():
            proj.set_file(f, tk)
        mts = [dict(t, wd=proj.root) for t in ts]
        by = {t["name"]: t for t in mts}
        deps, _, _ = model.dependency_relation(mts)
        sim = SimCluster(proj.simdir, sched, first_id=case["first_id"])
        env = cli.env_for(proj.simdir, (sched,))
        expected = {}  # job id -> list of prerequisite job ids (from the oracle, at submission time)
        earlier = False
        npre = []
        purged_name = None
        for ri, rnd in enumerate(case["rounds"]):
            try:
                with open(os.path.join(proj.root, ".gwf", scenario.tracked_file(sched))) as f:
                    tracked = json.load(f)
            except FileNotFoundError:
                tracked = {}
            if ri >= 1 and sched == "slurm" and purged_name is None and case["final_seed"] % 4 == 0:
                # a running prerequisite from an earlier invocation has failed and was purged from the controller, while
                # the lagging accounting database still reports it as running: sbatch will refuse a dependency on it
                jobs_ = sim.jobs()
                live = sorted(n_ for n_, jid_ in tracked.items() if jid_ in jobs_ and jobs_[jid_]["phase"] == "running" and any(n_ in deps[m_] for m_ in deps))
                if live:
                    purged_name = live[0]
                    sim.update_job(tracked[purged_name], phase="finished", exit=1, purged=True, acct={"phase": "running", "exit": None, "code": None}, end_seq=sim.seq())
                    res.mon("purged_prerequisites")
            tracked = scenario.check_tracked(res, sim, sched, tracked, set(deps), {"round": ri, "sched": sched})
            bview = scenario.backend_view(sim, tracked, sched)
            mtime = scenario.disk_mtimes(scenario.all_paths(mts))
            sel = scenario.select(set(deps), rnd["patterns"])
            selected = model.endpoints(deps) if sel is None else sel
            want_submit, want_prereq, st = model.plan(mts, deps, bview, mtime, selected)
            seq0 = sim.seq()
            r = cli.gwf(proj.root, ["run"] + rnd["patterns"], env)
            ctx = {"round": ri, "sched": sched, "patterns": rnd["patterns"], "backend": bview}
            if r.rc != 0 and purged_name is not None and "Job dependency problem" in r.err:
                # the scheduler refused a job whose prerequisite it does not know any more: fine, as long as nothing was
                # accepted WITHOUT the prerequisites it has to wait for
                for s_ in scenario.submissions_view(sim, seq0):
                    want_ids = {str(tracked.get(d)) for d in want_prereq.get(s_["name"], ()) if tracked.get(d) is not None}
                    if purged_name in want_prereq.get(s_["name"], ()) or not want_ids <= set(s_["prereq_ids"]):
                        res.violation("prereq-mismatch", "after sbatch refused a dependency on the purged job of %s, %s was accepted with prerequisites %s (it has to wait for %s)" % (purged_name, s_["name"], s_["prereq_ids"], sorted(want_prereq.get(s_["name"], ()))), **ctx)
                res.mon("refused_dependency_runs")
                res.sig = (sched, "purged")
                res.nontrivial = True
                return res
            if r.rc != 0:
                res.violation("crash", "gwf run failed", **cli.crash_witness(r), **ctx)
                return res
            subs = scenario.submissions_view(sim, seq0)
            scenario.check_plan(res, subs, want_submit, want_prereq, tracked, sched, ctx)
            newid = {s["name"]: s["id"] for s in subs}
            for s in subs:
                if s["dep_raw"] is not None:
                    res.mon("dep_args_checked")
                    if not RAW_RX[sched].fullmatch(s["dep_raw"]):
                        res.violation("dep-syntax", "%s: dependency argument %r does not match the scheduler's grammar for 'all succeeded' over plain ids" % (s["name"], s["dep_raw"]), **ctx)
                pre = []
                for d in want_prereq.get(s["name"], ()):
                    pid = newid.get(d, tracked.get(d))
                    if pid is not None:
                        pre.append(str(pid))
                        if d not in newid:
                            earlier = True
                expected[s["id"]] = pre
                npre.append(len(pre))
            adv = random.Random(rnd["adv_seed"])
            for _ in range(rnd["adv_steps"]):
                if not adversary_step(adv, sim, by, res):
                    break
        # final: the adversary keeps going until nothing is possible any more
        adv = random.Random(case["final_seed"])
        for _ in range(400):
            if not adversary_step(adv, sim, by, res, p_fail=0.2):
                break
        jobs = sim.jobs()
        res.obs("journal", [(r_["seq"], r_.get("cmd") or r_.get("event"), r_.get("job") or r_.get("id"), (r_.get("argv") or [""])[-1] if r_["kind"] == "cmd" else r_.get("exit")) for r_ in sim.journal() if r_["kind"] == "event" or r_.get("job")][:60])
        failed_pre = False
        for jid, pre in expected.items():
            j = jobs[jid]
            bad_pre = [p for p in pre if jobs[p]["phase"] == "cancelled" or (jobs[p]["phase"] == "finished" and jobs[p]["exit"] != 0)]
            if bad_pre:
                failed_pre = True
            if j["start_seq"] is not None:
                res.mon("start_events_checked")
                for p in pre:
                    pe = jobs[p]["end_seq"]
                    if pe is None or pe > j["start_seq"]:
                        res.violation("started-before-prereq", "job %s (%s) started at seq %s before its prerequisite %s (%s) ended (%s)" % (jid, j["name"], j["start_seq"], p, jobs[p]["name"], pe), sched=sched, dep_raw=j["dep_raw"])
                if bad_pre and sched in ("slurm", "lsf"):
                    res.violation("started-after-failed-prereq", "job %s (%s) started although prerequisite(s) %s failed or were cancelled" % (jid, j["name"], bad_pre), sched=sched, dep_raw=j["dep_raw"])
            elif bad_pre and sched in ("slurm", "lsf"):
                res.mon("never_started_checked")
        res.sig = (sched, sorted(npre), failed_pre, earlier)
        res.nontrivial = any(n >= 2 for n in npre) and earlier and failed_pre
    return res


# --------------------------------------------------------------------------
# local backend: the real client (TrackingBackend + LocalOps) against a recording server
# --------------------------------------------------------------------------


def run_local(case):
    """`gwf -b local run` against a line-protocol server that records every request and
    hands out ids; the deps list of each enqueue_task must be exactly the ids the server
    returned for the incomplete direct dependencies."""
    import socket
    import threading

    res = Result()
    with gen.Project() as proj:
        ts = case["dag"]["targets"]
        variant = [{"name": t["name"], "ins_expr": repr(t["ins"]), "outs_expr": repr(t["outs"]), "spec": t["spec"], "route": "target"} for t in ts]
        proj.write_workflow(gen.render_workflow(variant))
        srv = socket.socket()
        srv.bind(("127.0.0.1", 0))
        srv.listen(8)
        port = srv.getsockname()[1]
        proj.write_config({"backend": "local", "backend.local.port": port, "backend.local.host": "127.0.0.1"})
        for f, tk in case["ticks"].items():
            proj.set_file(f, tk)
        mts = [dict(t, wd=proj.root) for t in ts]
        deps, _, _ = model.dependency_relation(mts)
        import time as _time

        state = {"next": int(_time.time() * 1000), "tasks": {}, "log": []}  # like gwf's own pool since b14ff27
        stop = threading.Event()

        def serve():
            srv.settimeout(0.2)
            while not stop.is_set():
                try:
                    conn, _ = srv.accept()
                except socket.timeout:
                    continue
                f = conn.makefile("rwb")
                while True:
                    line = f.readline()
                    if not line:
                        break
                    msg = json.loads(line)
                    state["log"].append(msg)
                    k = msg.get("__kind__")
                    if k == "enqueue_task":
                        tid = state["next"]
                        state["next"] += 1
                        state["tasks"][tid] = {"name": msg["name"], "deps": msg["deps"], "state": "SUBMITTED"}
                        f.write((json.dumps({"__kind__": "task_enqueued", "tid": tid}) + "\n").encode())
                        f.flush()
                    elif k == "get_task_states":
                        f.write((json.dumps({"__kind__": "task_states", "tasks": {str(t): v["state"] for t, v in state["tasks"].items()}}) + "\n").encode())
                        f.flush()
                    elif k == "cancel_task":
                        if msg["tid"] in state["tasks"]:
                            state["tasks"][msg["tid"]]["state"] = "CANCELLED"
                    elif k == "close":
                        break
                conn.close()

        th = threading.Thread(target=serve, daemon=True)
        th.start()
        env = cli.env_for(None, ())
        local_map = {"SUBMITTED": "submitted", "RUNNING": "running", "COMPLETED": "completed", "FAILED": "failed", "CANCELLED": "cancelled", "KILLED": "failed"}
        npre = []
        earlier = False
        failed_pre = False
        try:
            for ri, rnd in enumerate(case["rounds"]):
                try:
                    with open(os.path.join(proj.root, ".gwf", "local-backend-tracked.json")) as f:
                        tracked = json.load(f)
                except FileNotFoundError:
                    tracked = {}
                bview = {n: local_map[state["tasks"][tid]["state"]] if tid in state["tasks"] else "unknown" for n, tid in tracked.items()}
                mtime = scenario.disk_mtimes(scenario.all_paths(mts))
                sel = scenario.select(set(deps), rnd["patterns"])
                selected = model.endpoints(deps) if sel is None else sel
                want_submit, want_prereq, st = model.plan(mts, deps, bview, mtime, selected)
                n0 = len(state["log"])
                r = cli.gwf(proj.root, ["run"] + rnd["patterns"], env, audit=False)
                if r.rc != 0:
                    res.violation("crash", "gwf -b local run failed", **cli.crash_witness(r))
                    return res
                enq = [m for m in state["log"][n0:] if m.get("__kind__") == "enqueue_task"]
                got_names = sorted(m["name"] for m in enq)
                if got_names != sorted(want_submit):
                    res.violation("plan-mismatch", "local: enqueued %s; expected %s" % (got_names, sorted(want_submit)), backend=bview)
                    return res
                newid = {}
                base = max(state["tasks"]) - len(enq) + 1 if enq else 0
                for i, m in enumerate(enq):
                    newid[m["name"]] = base + i
                for m in enq:
                    res.mon("local_enqueues")
                    res.mon("submissions")
                    want = sorted(newid[d] if d in newid else tracked.get(d) for d in want_prereq[m["name"]])
                    if any(d not in newid for d in want_prereq[m["name"]]):
                        earlier = True
                    npre.append(len(want))
                    if sorted(m["deps"], key=str) != sorted(want, key=str) or not all(isinstance(x, int) for x in m["deps"]):
                        res.violation("prereq-mismatch", "local: task %s enqueued with deps %r; expected the server's ids %r of %s" % (m["name"], m["deps"], want, sorted(want_prereq[m["name"]])), backend=bview)
                    if m.get("working_dir") != proj.root:
                        res.violation("local-wd", "local: task %s enqueued with working_dir %r" % (m["name"], m.get("working_dir")))
                # adversary: move task states
                adv = random.Random(rnd["adv_seed"])
                for _ in range(rnd["adv_steps"]):
                    tids = [t for t, v in state["tasks"].items() if v["state"] in ("SUBMITTED", "RUNNING")]
                    if not tids:
                        break
                    t = adv.choice(tids)
                    v = state["tasks"][t]
                    if v["state"] == "SUBMITTED":
                        v["state"] = adv.choice(["RUNNING", "RUNNING", "CANCELLED"])
                    else:
                        v["state"] = adv.choice(["COMPLETED", "COMPLETED", "FAILED", "KILLED"])
                        if v["state"] == "COMPLETED":
                            scenario.create_outputs(next(x for x in mts if x["name"] == v["name"]))
                        else:
                            failed_pre = True
        finally:
            stop.set()
            th.join(timeout=2)
            srv.close()
        res.sig = ("local", sorted(npre), failed_pre, earlier)
        res.nontrivial = any(n >= 2 for n in npre) and earlier
    return res
