"""C04 — validation accepts exactly well-formed workflows and names the defect otherwise."""

import json
import os

from .. import cli, gen, model
from ..core import Result
from ..simcluster import CANCEL_CMD, SUBMIT_CMD, SimCluster

ID = "C04"
LEVEL = "exploration"
RULE = (
    "valid random DAGs (1-9 targets) into which 0-3 defects are injected: duplicate producer (same or different "
    "spelling), missing source file, self-loop, 2..n-cycle whose members are chosen anywhere (incl. unreachable from the "
    "first-defined target) and embedded in acyclic context; definition order shuffled; in half of the cases ~30% of the "
    "targets carry the relative working directory '.' (gwf run from the project root) while neighbours name the same "
    "files absolutely. lib lane: exception type of "
    "Graph.from_targets vs. model.validate (Kahn + duplicate/unresolved scan; the raised kind must be one that "
    "applies). cli lane: status, run, run --dry-run, touch, clean --all -f, cancel -f, info on the same project must "
    "all fail with a click error (exit 1, 'Error:') and leave the tree, the state JSON and the scheduler untouched "
    "(audit journal + snapshot + simulator journal). size lane: chains (both definition orders), stars and layered "
    "DAGs of depth/size 50..5000 must terminate without crash. Non-trivial: a defect not located at the first-defined "
    "target, or an acyclic case with a reconverging path. distinct = (defect kinds, cycle length, position class, n)."
)
ASSUMPTIONS = [
    "a single target listing one file twice among its own outputs is not generated (the property speaks of two targets)",
    "creation of the .gwf/ and .gwf/logs directories by the CLI start-up is not counted as a side effect",
]

COMMANDS = [["status"], ["run"], ["run", "--dry-run"], ["touch"], ["clean", "--all", "-f"], ["cancel", "-f"], ["info"]]
KIND_EXC = {"multi": "FileProvidedByMultipleTargetsError", "unresolved": "UnresolvedInputError", "cycle": "CircularDependencyError"}
RECURSION_FRAMES = {"visitor", "_schedule", "_cached_schedule", "_visit", "dfs_inner", "check_for_circular_dependencies", "inner", "wrapper"}


QUICK_BUDGET = {"cases": 4000, "deadline_s": 170, "case_timeout_s": 900, "floors": {"lib_decisions": 1312, "cli_commands": 300, "size_runs": 12, "relative_wd_cases": 400, "epoch_sources": 250}}
THOROUGH_FACTOR = 10  # thorough = the same workload with 10x the cases (floors scale along)


def budget(tier):
    from ..core import scaled_budget

    return scaled_budget(QUICK_BUDGET, tier, THOROUGH_FACTOR, noscale=('size_runs',), case_timeout_s=900)


SIZES_QUICK = [(s, d) for s in ("chain_fwd", "chain_rev") for d in (50, 300, 600, 1200)] + [("star", 2000), ("layered", 1500), ("chain_fwd", 3000), ("chain_rev", 3000), ("dense", 40), ("dense", 90)]
SIZES_THOROUGH = [(s, d) for s in ("chain_fwd", "chain_rev") for d in (50, 150, 250, 320, 400, 500, 700, 1000, 1500, 2500, 5000)] + [
    ("star", 5000),
    ("layered", 5000),
    ("star", 500),
    ("layered", 300),
    ("dense", 30),
    ("dense", 60),
    ("dense", 200),
    ("dense", 600),
]


def gen_case(rng, idx, tier):
    sizes = SIZES_THOROUGH if tier == "thorough" else SIZES_QUICK
    if idx < len(sizes) * 2:
        shape, n = sizes[idx // 2]
        return {"lane": "size", "shape": shape, "n": n, "via": "cli" if idx % 2 == 0 else "lib"}
    lane = "cli" if idx % 9 == 0 else "lib"
    dag = gen.gen_dag(rng, max_targets=9, p_noout=0.05)
    ts = dag["targets"]
    missing = []
    defects = []
    ndef = rng.choice([0, 0, 1, 1, 1, 2, 3])
    for _ in range(ndef):
        kind = rng.choice(["multi", "unresolved", "self", "cycle", "cycle", "cycle"])
        with_outs = [t for t in ts if t["outs"]]
        if kind == "multi" and len(ts) >= 2 and with_outs:
            a = rng.choice(with_outs)
            b = rng.choice([t for t in ts if t is not a])
            f = rng.choice(a["outs"])
            b["outs"].append(rng.choice([f, "./" + f, "q/../" + f, "@ROOT@/" + f, "@ROOT@/./" + f, "@ROOT@/zz/../" + f, "@ROOT@//" + f]))
            defects.append(("multi", ts.index(b)))
        elif kind == "unresolved":
            a = rng.choice(ts)
            f = "missing_%d.txt" % len(missing)
            missing.append(f)
            a["ins"].append(f)
            defects.append(("unresolved", ts.index(a)))
        elif kind == "self" and with_outs:
            a = rng.choice(with_outs)
            a["ins"].append(rng.choice([a["outs"][0], "./" + a["outs"][0], "@ROOT@/./" + a["outs"][0], "@ROOT@/q/../" + a["outs"][0]]))
            defects.append(("cycle1", ts.index(a)))
        elif kind == "cycle" and len(with_outs) >= 2:
            k = rng.randint(2, min(len(with_outs), 6))
            members = rng.sample(with_outs, k)
            if rng.random() < 0.5:
                members.sort(key=lambda t: -ts.index(t))  # prefer late targets first in the ring
            for i in range(k):
                src, dst = members[i], members[(i + 1) % k]
                f = src["outs"][0]
                if f not in dst["ins"]:
                    dst["ins"].append(rng.choice([f, f, "@ROOT@/./" + f, "@ROOT@/zz/../" + f]))
            defects.append(("cycle%d" % k, min(ts.index(m) for m in members)))
    order = list(range(len(ts)))
    if rng.random() < 0.6:
        rng.shuffle(order)
    for t in ts:
        t["ins"] = list(dict.fromkeys(t["ins"]))
        t["spec"] = "echo %s\n" % t["name"]
    return {"lane": lane, "dag": dag, "missing": missing, "defects": defects, "order": order, "shape_seed": rng.randrange(1 << 30)}


def plain_variant(case, root):
    import random

    r = random.Random(case["shape_seed"])
    ts = case["dag"]["targets"]
    r2 = random.Random(case["shape_seed"] + 1)
    relwd = [r2.random() < 0.3 for _ in ts] if r2.random() < 0.5 else [False] * len(ts)
    out = []
    for i in case["order"]:
        t = ts[i]
        ins = [p.replace("@ROOT@", root) for p in t["ins"]]
        outs = [p.replace("@ROOT@", root) for p in t["outs"]]
        out.append(
            {
                "name": t["name"],
                # some targets carry a RELATIVE working directory ("."); gwf is run from the project root, so
                # they denote the same files as their neighbours that use the absolute default
                "wd": root if relwd[i] else None,
                "wd_spelled": "." if relwd[i] else None,
                "ins": ins,
                "outs": outs,
                "ins_expr": gen.shape_expr(r, [repr(p) for p in ins]),
                "outs_expr": gen.shape_expr(r, [repr(p) for p in outs]),
                "spec": t["spec"],
            }
        )
    return out


def run_case(case):
    if case["lane"] == "size":
        return run_size(case)
    res = Result()
    with gen.Project() as proj:
        root = proj.root
        variant = plain_variant(case, root)
        mts = [dict(t, wd=root) for t in variant]
        deps, producers, unresolved = model.dependency_relation(mts)
        for s in case["dag"]["sources"]:
            proj.set_file(s, 0)
        # one source may be dated the Unix epoch (mtime exactly 0, e.g. unpacked from an archive without timestamps):
        # it exists all the same
        if case["shape_seed"] % 4 == 0 and case["dag"]["sources"]:
            os.utime(proj.path(case["dag"]["sources"][case["shape_seed"] % len(case["dag"]["sources"])]), ns=(0, 0))
            res.mon("epoch_sources")
        # a missing source may be "present" as a dangling symbolic link: still missing
        for i, mname in enumerate(case["missing"]):
            if (case["shape_seed"] + i) % 3 == 0:
                os.symlink(os.path.join(proj.base, "nowhere", mname), proj.path(mname))
        # some intermediate outputs exist already
        kinds = model.validate(mts, lambda p: os.path.exists(p))
        first = variant[0]["name"]
        pos = "none"
        if case["defects"]:
            names_at = [case["dag"]["targets"][i]["name"] for _, i in case["defects"]]
            pos = "first" if first in names_at else "later"
        reconv = False
        if not kinds:
            for n in deps:
                seen = set()
                for d in deps[n]:
                    c = model.closure({d}, deps)
                    if c & seen:
                        reconv = True
                    seen |= c
        res.sig = (sorted(kinds), sorted(k for k, _ in case["defects"]), pos, len(variant))
        res.nontrivial = (bool(kinds) and pos == "later") or (not kinds and reconv)
        if case["lane"] == "lib":
            run_lib(case, root, variant, kinds, res)
        else:
            run_cli(case, proj, variant, kinds, res)
    return res


def run_lib(case, root, variant, kinds, res):
    from .. import inproc

    res.mon("lib_decisions")
    here = os.getcwd()
    try:
        os.chdir(root)
        wf = inproc.build_workflow(root, variant)
        inproc.graph_of(wf)
        got = None
    except inproc.gwf.exceptions.GWFError as e:
        got = type(e).__name__
    except Exception as e:
        res.violation("crash", "graph building crashed with %r" % (e,), variant=[(t["name"], t.get("wd_spelled"), t["ins"], t["outs"]) for t in variant])
        return
    finally:
        os.chdir(here)
    if any(t.get("wd_spelled") for t in variant):
        res.mon("relative_wd_cases")
    want = {KIND_EXC[k] for k in kinds}
    res.obs("decision", {"targets": [(t["name"], t.get("wd_spelled"), t["ins"], t["outs"]) for t in variant], "defects_that_apply": sorted(kinds), "gwf_raised": got})
    if not kinds and got is not None:
        res.violation("false-reject", "well-formed workflow rejected with %s" % got, variant=[(t["name"], t.get("wd_spelled"), t["ins"], t["outs"]) for t in variant])
    elif kinds and got is None:
        res.violation("false-accept", "workflow with defects %s accepted" % sorted(kinds), variant=[(t["name"], t.get("wd_spelled"), t["ins"], t["outs"]) for t in variant], defects=case["defects"])
    elif kinds and got not in want:
        res.violation("wrong-kind", "raised %s but the defects that apply are %s" % (got, sorted(kinds)), variant=[(t["name"], t.get("wd_spelled"), t["ins"], t["outs"]) for t in variant])


def semantic_state(proj):
    return proj.state_files()


def run_cli(case, proj, variant, kinds, res):
    proj.write_workflow(gen.render_workflow([dict(t, route="template", wd_arg=".") if t.get("wd_spelled") else dict(t, route="target") for t in variant]))
    proj.write_config({"backend": "slurm", "use_spec_hashes": True})
    # some outputs exist so that clean/touch would have something to do
    for t in variant[::2]:
        for o in t["outs"]:
            if "/" not in o:
                proj.set_file(o, 1)
        # files named by absolute spellings may exist too (a cycle through an existing file is still a cycle)
        for t in variant[1::3]:
            for o in t["outs"]:
                if o.startswith("/") and "/.." not in o and "/./" not in o and "//" not in o:
                    proj.set_file(o, 1)
    sim = SimCluster(proj.simdir, "slurm")
    # a tracked, pending job so that `cancel` would have something to cancel
    jid = sim.add_job(variant[0]["name"], phase="pending")
    proj.write_state("slurm-backend-tracked.json", {variant[0]["name"]: jid})
    proj.write_state("spec-hashes.json", {variant[0]["name"]: "0" * 40})
    with open(os.path.join(proj.root, ".gwf", "logs", "old.stdout"), "w") as f:
        f.write("old log\n")
    env = cli.env_for(proj.simdir, ("slurm",))
    for cmd in COMMANDS:
        before = gen.snapshot(proj.root)
        sbefore = semantic_state(proj)
        seq0 = sim.seq()
        r = cli.gwf(proj.root, cmd, env)
        res.mon("cli_commands")
        after = gen.snapshot(proj.root)
        safter = semantic_state(proj)
        if kinds:
            if r.crashed or r.timed_out or not cli.is_click_error(r):
                res.violation("no-clean-error", "`gwf %s` on a workflow with defects %s did not fail with a click error" % (" ".join(cmd), sorted(kinds)), **cli.crash_witness(r))
                continue
            mentioned = [k for k in kinds if any(w in r.err for w in {"multi": ["provided by targets"], "unresolved": ["does not exist and is not"], "cycle": ["depends on itself"]}[k])]
            if not mentioned:
                res.violation("wrong-kind", "`gwf %s` error message names none of the defects that apply (%s): %s" % (" ".join(cmd), sorted(kinds), r.err[-300:]))
            d = gen.snap_diff(before, after)
            changed = [p for k in ("added", "removed", "modified", "touched") for p in d[k] if not p.startswith(".gwf/") or not p.endswith(".json")]
            changed = [p for p in changed if p not in (".gwf/", ".gwf/logs/")]
            if changed or sbefore != safter:
                res.violation("side-effect-on-invalid", "`gwf %s` on an invalid workflow changed %s (state json changed: %s)" % (" ".join(cmd), changed, sbefore != safter))
            muts = sim.commands(seq0, set(SUBMIT_CMD.values()) | set(CANCEL_CMD.values()))
            if muts:
                res.violation("side-effect-on-invalid", "`gwf %s` on an invalid workflow issued %s" % (" ".join(cmd), [m["cmd"] for m in muts]))
            bad = [e for e in r.audit if e["ev"] in ("os.remove", "os.utime", "os.rename", "shutil.rmtree")]
            if bad:
                res.violation("side-effect-on-invalid", "`gwf %s` on an invalid workflow performed %s" % (" ".join(cmd), bad[:5]))
        else:
            if r.rc != 0:
                res.violation("false-reject", "`gwf %s` failed on a well-formed workflow" % " ".join(cmd), **cli.crash_witness(r))


# --------------------------------------------------------------------------
# size / depth sweep
# --------------------------------------------------------------------------


def size_workflow_src(shape, n):
    hdr = "from gwf import Workflow\ngwf = Workflow()\n"
    if shape == "chain_fwd":
        body = "gwf.target('t0', inputs=['src.txt'], outputs=['f0']) << 'echo'\nfor i in range(1, %d):\n    gwf.target('t%%d' %% i, inputs=['f%%d' %% (i-1)], outputs=['f%%d' %% i]) << 'echo'\n" % n
    elif shape == "chain_rev":
        body = "for i in range(%d-1, 0, -1):\n    gwf.target('t%%d' %% i, inputs=['f%%d' %% (i-1)], outputs=['f%%d' %% i]) << 'echo'\ngwf.target('t0', inputs=['src.txt'], outputs=['f0']) << 'echo'\n" % n
    elif shape == "star":
        body = "gwf.target('hub', inputs=['src.txt'], outputs=['hub.out']) << 'echo'\nfor i in range(%d):\n    gwf.target('s%%d' %% i, inputs=['hub.out'], outputs=['s%%d.out' %% i]) << 'echo'\ngwf.target('sink', inputs=['s%%d.out' %% i for i in range(%d)], outputs=['sink.out']) << 'echo'\n" % (n, n)
    elif shape == "dense":  # n stages of 3 targets, every target reads ALL outputs of the previous stage: 3**n paths
        body = (
            "for l in range(%d):\n    for w in range(3):\n        ins = ['src.txt'] if l == 0 else ['d%%d_%%d' %% (l-1, k) for k in range(3)]\n"
            "        gwf.target('t%%d_%%d' %% (l, w), inputs=ins, outputs=['d%%d_%%d' %% (l, w)]) << 'echo'\n" % n
        )
    else:  # layered: width 10, n/10 layers, each target consumes 3 of the previous layer
        body = (
            "W = 10\nL = max(2, %d // W)\nfor l in range(L):\n    for w in range(W):\n        ins = ['src.txt'] if l == 0 else ['l%%d_%%d' %% (l-1, (w+k) %% W) for k in range(3)]\n"
            "        gwf.target('t%%d_%%d' %% (l, w), inputs=ins, outputs=['l%%d_%%d' %% (l, w)]) << 'echo'\n" % n
        )
    return hdr + body


def depth_of(shape, n):
    if shape == "dense":
        return n
    return n if shape.startswith("chain") else (2 if shape == "star" else max(2, n // 10))


def count_of(shape, n):
    if shape.startswith("chain"):
        return n
    if shape == "star":
        return n + 2
    if shape == "dense":
        return 3 * n
    return 10 * max(2, n // 10)


def run_size(case):
    res = Result()
    shape, n = case["shape"], case["n"]
    depth = depth_of(shape, n)
    res.sig = ("size", shape, n, case["via"])
    res.nontrivial = n >= 300
    with gen.Project() as proj:
        proj.set_file("src.txt", 0)
        proj.write_workflow(size_workflow_src(shape, n))
        proj.write_config({"backend": "slurm"})
        if case["via"] == "lib":
            import subprocess
            import sys

            from ..core import REPO, VERIF

            code = (
                "import sys; sys.path.insert(0, %r)\n"
                "from gwf import Workflow\nfrom gwf.core import Graph, CachedFilesystem\n"
                "from gwf.utils import load_workflow\nfrom pathlib import Path\n"
                "wf = load_workflow(Path(%r), 'gwf')\ng = Graph.from_targets(wf.targets, CachedFilesystem())\nprint('TARGETS', len(g.targets))\n"
                % (os.path.join(REPO, "src"), os.path.join(proj.root, "workflow.py"))
            )
            try:
                p = subprocess.run([sys.executable, "-c", code], capture_output=True, text=True, cwd=proj.root, timeout=200)
            except subprocess.TimeoutExpired:
                res.mon("size_runs")
                res.violation("no-termination", "Graph.from_targets on %s of %d targets (depth %d) did not finish within 200 s" % (shape, count_of(shape, n), depth))
                return res
            res.mon("size_runs")
            if p.returncode != 0:
                exc = p.stderr.strip().splitlines()[-1].split(":")[0] if p.stderr.strip() else "?"
                frames = [ln.rsplit(", in ", 1)[1] for ln in p.stderr.splitlines() if ln.strip().startswith('File "') and "/gwf/" in ln and ", in " in ln]
                mech = "recursion-depth" if (exc == "RecursionError" and depth >= 300 and frames and frames[-1] in RECURSION_FRAMES) else "crash"
                res.violation(mech, "Graph.from_targets on %s of %d targets (depth %d) died with %s" % (shape, n, depth, exc), frames=frames[-4:], err=p.stderr[-800:])
            return res
        sim = SimCluster(proj.simdir, "slurm")
        env = cli.env_for(proj.simdir, ("slurm",))
        for cmd in (["status", "-f", "summary"], ["run", "--dry-run"], ["touch"], ["status", "-f", "summary"]):
            r = cli.gwf(proj.root, cmd, env, timeout=200, audit=False)
            res.mon("size_runs")
            if r.timed_out:
                # these workloads take well under 10 s on the unchanged tree: 200 s without an answer is non-termination
                res.violation("no-termination", "`gwf %s` on %s of %d targets (depth %d) did not finish within 200 s" % (" ".join(cmd), shape, count_of(shape, n), depth))
                return res
            if r.rc != 0:
                frames = r.gwf_frames()
                mech = "recursion-depth" if (r.exc_type == "RecursionError" and depth >= 300 and frames and frames[-1] in RECURSION_FRAMES) else "crash"
                res.violation(mech, "`gwf %s` on %s of %d targets (depth %d) died with %s" % (" ".join(cmd), shape, n, depth, r.exc_type), frames=frames[-4:], err=r.err[-600:])
            elif cmd[0] == "status":
                tot = sum(cli.parse_summary(r.out).values())
                want = count_of(shape, n)
                if tot != want:
                    res.violation("size-count", "status summary counts %d targets, workflow has %d" % (tot, want))
    return res
