"""C02 — submission plan: stale cone only, once each, deps first, exact prerequisites."""

import json
import os

from .. import cli, gen, model, scenario
from ..core import Result
from ..simcluster import CANCEL_CMD, SimCluster

ID = "C02"
LEVEL = "exploration"
RULE = (
    "random DAGs (1-8 targets; chains, diamonds, fans, forests, disconnected parts), random file state with ties, on "
    "simulated Slurm (60%), SGE and LSF, plus the local backend against a recording stand-in for the pool (task ids counting up from the current time in ms, as gwf's own pool hands them out). direct lane: a backend state vector over "
    "unknown/submitted/running/completed/failed/cancelled (as far as the scheduler can represent it) is written into the "
    "tracked-jobs file and the simulator's job table, foreign jobs present, then one `gwf run [patterns]`. driven lane: "
    "2-3 rounds of `gwf run sel_i` with a seeded adversary starting/finishing(ok|fail)/cancelling jobs between rounds "
    "(outputs of successful jobs are really created). Observed: the simulator journal (accepted submissions in order, "
    "job name from the script's own directive, prerequisite ids as parsed by the simulator). Oracle: model.plan; checks "
    "exactly-once, nothing outside the cone, deps-first by journal sequence number, prerequisite id set == latest ids "
    "of the incomplete direct deps (new id for deps resubmitted in this run). Non-trivial: >= 2 distinct backend "
    "states, a target with >= 2 direct deps, plan neither empty nor everything. distinct = (shape class, state vector, "
    "selection kind, plan size, scheduler)."
)
ASSUMPTIONS = ["simulated schedulers (simbin) stand in for Slurm/SGE/LSF", "spec hashing off (covered by C18)"]


QUICK_BUDGET = {"cases": 1260, "deadline_s": 170, "case_timeout_s": 90, "floors": {"runs": 633, "submissions": 1200, "prereq_sets": 1200, "user_cancels": 120, "wide_cases": 1}}
THOROUGH_FACTOR = 10  # thorough = the same workload with 10x the cases (floors scale along)


def budget(tier):
    from ..core import scaled_budget

    return scaled_budget(QUICK_BUDGET, tier, THOROUGH_FACTOR, noscale=())


def wide_case(rng):
    """more tracked jobs than one accounting query carries (1024): ~1040 independent, up-to-date targets whose jobs
    completed - except a few around the batch boundary whose last job failed / was cancelled and which therefore
    have to be submitted again (and only those)"""
    n = rng.randint(1030, 1060)
    targets = [{"name": "w%04d" % i, "ins": ["src0.txt"], "outs": ["wide/o%04d.dat" % i], "spec": "echo w%d\n" % i} for i in range(n)]
    ticks = {"src0.txt": 0}
    bstate = {}
    bad = set(rng.sample(range(1019, 1030), 3)) | {1023, 1024, rng.randrange(n)}
    for i, t in enumerate(targets):
        ticks[t["outs"][0]] = 2
        bstate[t["name"]] = rng.choice(["failed", "cancelled"]) if i in bad else "completed"
    return {"lane": "direct", "sched": "slurm", "dag": {"targets": targets, "sources": ["src0.txt"], "shape": "wide"}, "ticks": ticks, "first_id": 1000, "bstate": bstate, "ghost": [], "patterns": [], "foreign": 0, "wide": True, "timeout_s": 600}


def gen_case(rng, idx, tier):
    if idx % 601 == 17:
        return wide_case(rng)
    sched = rng.choices(["slurm", "sge", "lsf"], [6, 2, 2])[0]
    lane = "driven" if idx % 3 == 0 else "direct"
    if idx % 7 == 5:
        sched, lane = "local", "local"
    dag = gen.gen_dag(rng, max_targets=8, p_noout=0.08)
    ticks = {}
    for s in dag["sources"]:
        ticks[s] = rng.choice([0, 1, 2, 3])
    for t in dag["targets"]:
        mode = rng.choice(["allpresent", "allpresent", "random", "fresh", "none"])
        for o in t["outs"]:
            ticks[o] = {"allpresent": rng.choice([0, 1, 2, 3]), "fresh": 3, "none": None}.get(mode, rng.choice([None, 0, 1, 2, 3]))
        t["spec"] = "echo %s\n" % t["name"]
    names = [t["name"] for t in dag["targets"]]
    case = {"lane": lane, "sched": sched, "dag": dag, "ticks": ticks, "first_id": rng.choice([7, 100, 1000, 99990])}
    if lane == "local":
        case["first_id"] = None  # the pool numbers its tasks from the current time in ms (never 0 since b14ff27)
        case["bstate"] = {n: rng.choice(["unknown", "submitted", "running", "completed", "failed", "cancelled"]) if rng.random() < 0.6 else "unknown" for n in names}
        case["patterns"] = scenario.gen_selection(rng, names)
        return case
    if lane == "direct":
        reps = scenario.REPRESENTABLE[sched] + (("sge_error",) if sched == "sge" else ())
        case["bstate"] = {n: rng.choice(reps) if rng.random() < 0.6 else "unknown" for n in names}
        case["ghost"] = [n for n in names if case["bstate"][n] == "unknown" and rng.random() < 0.2]
        case["patterns"] = scenario.gen_selection(rng, names)
        case["foreign"] = rng.randint(0, 3)
    else:
        case["rounds"] = []
        for r in range(rng.randint(2, 3)):
            case["rounds"].append({"patterns": scenario.gen_selection(rng, names), "adv_seed": rng.randrange(1 << 30), "adv_steps": rng.randint(0, 2 * len(names) + 2)})
    return case


def setup(case, proj):
    ts = case["dag"]["targets"]
    import random as _random

    sr = _random.Random((case["first_id"] or 0) + len(ts))
    variant = [{"name": t["name"], "ins_expr": repr(gen.respell_list(sr, t["ins"], proj.root)), "outs_expr": repr(gen.respell_list(sr, t["outs"], proj.root, 0.1)), "spec": t["spec"], "route": "target"} for t in ts]
    proj.write_workflow(gen.render_workflow(variant))
    proj.write_config({"backend": case["sched"]})
    srcs = set(case["dag"]["sources"])
    for f, tk in case["ticks"].items():
        if case.get("wide"):
            proj.set_file(f, tk)
        elif f in srcs and tk is not None and sr.random() < 0.2:
            # a source that is a symbolic link to data kept elsewhere; the link itself is dated the other way round
            proj.set_file(f, tk, symlink=True, link_tick=3 if tk < 2 else 0)
        elif f not in srcs and tk is None and sr.random() < 0.1:
            os.makedirs(os.path.join(proj.base, "outside"), exist_ok=True)
            os.makedirs(os.path.dirname(proj.path(f)) or proj.root, exist_ok=True)
            os.symlink(os.path.join(proj.base, "outside", "not_yet_" + os.path.basename(f)), proj.path(f))  # dangling: still missing
        else:
            proj.set_file(f, tk)
    mts = [dict(t, wd=proj.root) for t in ts]
    deps, _, _ = model.dependency_relation(mts)
    return mts, deps


def do_run(case, proj, sim, env, mts, deps, patterns, res, label):
    sched = case["sched"]
    try:
        with open(os.path.join(proj.root, ".gwf", scenario.tracked_file(sched))) as f:
            tracked = json.load(f)
    except FileNotFoundError:
        tracked = {}
    tracked = scenario.check_tracked(res, sim, sched, tracked, set(deps), {"label": label, "sched": sched})
    bview = scenario.backend_view(sim, tracked, sched)
    mtime = scenario.disk_mtimes(scenario.all_paths(mts))
    names = set(deps)
    sel = scenario.select(names, patterns)
    selected = model.endpoints(deps) if sel is None else sel
    want_submit, want_prereq, st = model.plan(mts, deps, bview, mtime, selected)
    seq0 = sim.seq()
    r = cli.gwf(proj.root, ["run"] + list(patterns), env)
    res.mon("runs")
    ctx = {"label": label, "sched": sched, "patterns": patterns, "backend": bview, "status": st, "deps": {k: sorted(v) for k, v in deps.items()}}
    if r.rc != 0:
        res.violation("crash", "gwf run failed", **cli.crash_witness(r), **ctx)
        return None
    subs = scenario.submissions_view(sim, seq0)
    res.obs(label, {"backend": bview, "expected_plan": sorted(want_submit), "journal": [(s_["seq"], s_["name"], s_["id"], s_["dep_raw"]) for s_ in subs]})
    scenario.check_plan(res, subs, want_submit, want_prereq, tracked, sched, ctx)
    canc = sim.commands(seq0, set(CANCEL_CMD.values()))
    if canc:
        res.violation("unexpected-cancel", "gwf run issued cancel commands %s" % [c["argv"] for c in canc], **ctx)
    inflight = [s["name"] for s in subs if bview.get(s["name"]) in ("submitted", "running")]
    if inflight:
        res.violation("resubmitted-inflight", "pending/running targets submitted again: %s" % inflight, **ctx)
    return {"bview": bview, "st": st, "want": want_submit, "cone": model.cone(selected, deps), "nstates": len(set(bview.get(n, "unknown") for n in names))}


def run_local(case):
    """the same plan through the local backend: a recording stand-in for the worker pool holds the task
    table (ids count up from the current time in ms, like gwf's own pool), the real TrackingBackend/LocalOps client talks to it"""
    from ..recserver import RecServer

    res = Result()
    LOCAL = {"submitted": "SUBMITTED", "running": "RUNNING", "completed": "COMPLETED", "failed": "FAILED", "cancelled": "CANCELLED"}
    with gen.Project() as proj, RecServer() as srv:
        mts, deps = setup(case, proj)
        proj.write_config({"backend": "local", "backend.local.port": srv.port, "backend.local.host": "127.0.0.1"})
        tracked = {}
        for n, s in sorted(case["bstate"].items()):
            if s == "unknown":
                continue
            tid = srv.next
            srv.next += 1
            srv.tasks[tid] = {"name": n, "deps": [], "state": LOCAL[s]}
            tracked[n] = tid
        if tracked:
            proj.write_state("local-backend-tracked.json", tracked)
        bview = dict(case["bstate"])
        mtime = scenario.disk_mtimes(scenario.all_paths(mts))
        sel = scenario.select(set(deps), case["patterns"])
        selected = model.endpoints(deps) if sel is None else sel
        want_submit, want_prereq, st = model.plan(mts, deps, bview, mtime, selected)
        env = cli.env_for(None, ())
        n0 = len(srv.log)
        r = cli.gwf(proj.root, ["run"] + case["patterns"], env, audit=False)
        res.mon("runs")
        ctx = {"sched": "local", "patterns": case["patterns"], "backend": bview, "tracked": tracked}
        if r.rc != 0:
            res.violation("crash", "gwf -b local run failed", **cli.crash_witness(r), **ctx)
            return res
        enq = [m for m in srv.log[n0:] if m.get("__kind__") == "enqueue_task"]
        names = [m["name"] for m in enq]
        res.mon("submissions", len(names))
        if sorted(names) != sorted(want_submit):
            inflight = [n for n in names if bview.get(n) in ("submitted", "running")]
            res.violation("resubmitted-inflight" if inflight else "plan-mismatch", "local: enqueued %s; expected %s" % (sorted(names), sorted(want_submit)), **ctx)
            return res
        newid = {}
        for m in enq:
            newid[m["name"]] = max(t for t, v in srv.tasks.items() if v["name"] == m["name"])
        order = {m["name"]: i for i, m in enumerate(enq)}
        for m in enq:
            res.mon("prereq_sets")
            want = sorted(newid[d] if d in newid else tracked[d] for d in want_prereq[m["name"]])
            if sorted(m["deps"]) != want:
                res.violation("prereq-mismatch", "local: %s enqueued with deps %s; expected %s" % (m["name"], m["deps"], want), **ctx)
            for d in want_prereq[m["name"]]:
                if d in order and order[d] > order[m["name"]]:
                    res.violation("order", "local: %s enqueued before its prerequisite %s" % (m["name"], d), **ctx)
        res.sig = (gen.shape_class(deps), sorted(bview.values()), bool(case["patterns"]), len(want_submit), "local")
        res.nontrivial = len(set(bview.values())) >= 2 and any(len(d) >= 2 for d in deps.values()) and 0 < len(want_submit) < len(deps)
    return res


def run_case(case):
    if case["sched"] == "local":
        return run_local(case)
    res = Result()
    sched = case["sched"]
    with gen.Project() as proj:
        mts, deps = setup(case, proj)
        sim = SimCluster(proj.simdir, sched, first_id=case["first_id"])
        env = cli.env_for(proj.simdir, (sched,))
        multi = any(len(d) >= 2 for d in deps.values())
        if case["lane"] == "direct":
            tracked = {}
            for i in range(case["foreign"]):
                sim.add_job("t%d" % i, phase=["pending", "running", "finished"][i % 3], exit=1, user="other", sched=sched)
            for n, s in case["bstate"].items():
                jid = scenario.place_state(sim, sched, n, s)
                if jid is not None:
                    tracked[n] = jid
            for n in case["ghost"]:
                tracked[n] = "424242"  # an id the scheduler has no record of
            if tracked:
                proj.write_state(scenario.tracked_file(sched), tracked)
            info = do_run(case, proj, sim, env, mts, deps, case["patterns"], res, "direct")
            if case.get("wide"):
                res.mon("wide_cases")
            if info:
                res.sig = (gen.shape_class(deps), sorted(info["bview"].get(n, "unknown") for n in deps), bool(case["patterns"]), len(info["want"]), sched)
                res.nontrivial = info["nstates"] >= 2 and multi and 0 < len(info["want"]) < len(deps)
        else:
            import random

            sigs = []
            nontriv = False
            by = {t["name"]: t for t in mts}
            for ri, rnd in enumerate(case["rounds"]):
                info = do_run(case, proj, sim, env, mts, deps, rnd["patterns"], res, "round%d" % ri)
                if info is None:
                    break
                sigs.append((sorted(info["bview"].get(n, "unknown") for n in deps), len(info["want"])))
                if info["nstates"] >= 2 and multi and 0 < len(info["want"]) < len(deps):
                    nontriv = True
                adv = random.Random(rnd["adv_seed"])
                for _ in range(rnd["adv_steps"]):
                    run_, act, pend = sorted(sim.runnable()), sorted(sim.running()), sorted(sim.pending())
                    choices = [("start", i) for i in run_] * 3 + [("ok", i) for i in act] * 3 + [("fail", i) for i in act] + [("cancel", i) for i in (pend + act)[:1]] + [("usercancel", i) for i in (act + pend)[:1]]
                    if not choices:
                        break
                    kind, jid = adv.choice(choices)
                    res.count("adversary_" + kind)
                    if kind == "start":
                        sim.start(jid)
                    elif kind == "ok":
                        name = sim.jobs()[jid]["name"]
                        scenario.create_outputs(by[name])
                        sim.finish(jid, 0)
                    elif kind == "fail":
                        sim.finish(jid, adv.choice([1, 2, 137]))
                    elif kind == "usercancel":
                        # the user cancels the target through gwf itself; a running job may already have written
                        # (fresh-looking) output.  Its last job is then a cancelled one: the next run re-submits it.
                        job = sim.jobs()[jid]
                        if job["phase"] == "running" and adv.random() < 0.6:
                            scenario.create_outputs(by[job["name"]])
                        rc_ = cli.gwf(proj.root, ["cancel", job["name"]], env)
                        res.mon("user_cancels")
                        if rc_.crashed or rc_.rc != 0:
                            res.violation("crash", "gwf cancel %s failed" % job["name"], **cli.crash_witness(rc_))
                    else:
                        sim.cancel(jid)
            res.sig = (gen.shape_class(deps), sigs, sched)
            res.nontrivial = nontriv
    return res
