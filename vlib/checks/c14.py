"""C14 — worker pool server survives misbehaving clients and keeps tasks and ids intact."""

import json
import os
import random
import shutil
import tempfile
import time

from .. import cli, gen, poolcase, vloop
from ..core import Inconclusive, Result

ID = "C14"
LEVEL = "exploration"
TECHNIQUE = "runtime monitoring: real Server.handle_connection + Scheduler on a virtual-time loop with in-memory client streams interleaved by a seeded adversary; plus a live `gwf workers` process attacked over real sockets while a healthy gwf client works"
RULE = (
    "virtual lane: 1 healthy connection (well-formed enqueue/state/cancel requests building a task DAG) and 1-3 abusive "
    "connections whose lines are interleaved with it by the adversary: unknown kinds, JSON of the wrong shape (list, "
    "null, number, missing/extra fields, wrong types for deps/script/time_limit/tid/working_dir/name), non-UTF-8 bytes, "
    "partial line then EOF, oversize line, unknown tid for cancel/state, drop (EOF or reset) at any point incl. while a "
    "response is being written; fake processes exit with adversary-chosen codes. Oracle: ids handed out are pairwise "
    "distinct; the healthy client gets exactly one well-formed response per request, in order; the final state query "
    "lists every accepted task under its own id with the state the sequential model implies; every accepted task "
    "(incl. accepted-but-malformed ones) is final when the adversary is exhausted; a fresh connection can still enqueue "
    "and query. real lane: the same abuse over TCP against a live `gwf workers` while `gwf -b local run/status` run; task "
    "side effects on disk. Non-trivial: an abusive connection was dropped mid-conversation or sent a malformed line while "
    "tasks of the healthy client were in flight. distinct = adversary event-order string."
)
ASSUMPTIONS = ["the 'shutdown' request is a feature of the protocol, not abuse, and is not sent", "fake processes in the virtual lane"]


QUICK_BUDGET = {"cases": 16000, "deadline_s": 170, "case_timeout_s": 120, "floors": {"accepted_tasks": 33236, "abusive_lines": 60000, "healthy_responses": 34884, "liveness_probes": 5600, "real_tasks": 20, "state_replies_checked": 15000, "identical_submissions": 20}}
THOROUGH_FACTOR = 10  # thorough = the same workload with 10x the cases (floors scale along)


def budget(tier):
    from ..core import scaled_budget

    return scaled_budget(QUICK_BUDGET, tier, THOROUGH_FACTOR, noscale=('real_tasks',))


ABUSE_RAW = [
    "\n",
    "{}\n",
    "[]\n",
    "null\n",
    "42\n",
    '"str"\n',
    "\xff\xfe\xfd\n",
    "{not json\n",
    '{"__kind__": "nope"}\n',
    '{"__kind__": "enqueue_task"}\n',
    '{"__kind__": "enqueue_task", "name": "x"}\n',
    '{"__kind__": "cancel_task", "tid": 99999}\n',
    '{"__kind__": "cancel_task", "tid": "0"}\n',
    '{"__kind__": "cancel_task"}\n',
    '{"__kind__": "get_task_state", "tid": 99999}\n',
    '{"__kind__": "get_task_state"}\n',
    '{"__kind__": "get_task_states", "extra": 1}\n',
    '{"__kind__": "get_task_states"}\n',
    '{"__kind__": 5}\n',
    '{"__kind__": "enqueue_task", "name": "p", "script"',  # partial, no newline
    "x" * 70000 + "\n",
]


def malformed_enqueue(rng, idx):
    kind = rng.choice(["deps_unknown", "deps_str", "deps_int", "script_int", "tl_str", "wd_int", "extra", "name_null", "deps_null"])
    m = {"__kind__": "enqueue_task", "name": "task:%d:" % idx, "script": "task:%d:" % idx, "working_dir": "@WD@", "time_limit": None, "deps": []}
    bad = True
    if kind == "deps_unknown":
        m["deps"] = [99999]
    elif kind == "deps_str":
        m["deps"] = "abc"
    elif kind == "deps_int":
        m["deps"] = 5
    elif kind == "script_int":
        m["script"] = 5
    elif kind == "tl_str":
        m["time_limit"] = "abc"
    elif kind == "wd_int":
        m["working_dir"] = 7
        bad = False  # the fake process factory does not look at cwd: runs normally
    elif kind == "extra":
        m["bogus"] = 1
        bad = False  # accepted, runs normally; only the connection handler trips afterwards
    elif kind == "name_null":
        m["name"] = None
        bad = False
    elif kind == "deps_null":
        m["deps"] = None
        bad = False
    return m, kind, bad


def gen_case(rng, idx, tier):
    if idx % 201 == 3:
        return {"lane": "real", "seed": rng.randrange(1 << 30)}
    tasks = []
    healthy = []
    n = rng.randint(1, 7)
    for i in range(n):
        deps = sorted(rng.sample(range(i), min(i, rng.choice([0, 0, 1, 2])))) if i else []
        tasks.append({"deps": deps, "time_limit": rng.choice([None, None, 2, 5])})
        enq = {"__kind__": "enqueue_task", "name": "n%d" % i, "script": "task:%d:" % i, "working_dir": "@WD@", "time_limit": tasks[-1]["time_limit"], "deps_idx": deps}
        if rng.random() < 0.3:
            # pipelined: the submission and a state query leave the client in ONE write, so the server reads the
            # query without an event-loop turn after accepting the task
            healthy.append({"op": "send", "batch": [enq, {"__kind__": "get_task_states"}]})
        else:
            healthy.append({"op": "send", "data": enq})
        if rng.random() < 0.4:
            healthy.append({"op": "send", "data": {"__kind__": "get_task_states"}})
        if rng.random() < 0.15:
            healthy.append({"op": "send", "data": {"__kind__": "cancel_task", "tid_idx": rng.randrange(i + 1)}})
        if rng.random() < 0.15:
            healthy.append({"op": "send", "data": {"__kind__": "get_task_state", "tid_idx": rng.randrange(i + 1)}})
    clients = [{"role": "healthy", "script": healthy}]
    for a in range(rng.randint(1, 3)):
        script = []
        for _ in range(rng.randint(1, 6)):
            k = rng.random()
            if k < 0.55:
                script.append({"op": "send", "data": rng.choice(ABUSE_RAW)})
            elif k < 0.8:
                i = len(tasks)
                m, kind, bad = malformed_enqueue(rng, i)
                tasks.append({"deps": [], "time_limit": None, "malformed": kind if bad else None, "abuser": True})
                script.append({"op": "send", "data": m})
            elif k < 0.9:
                script.append({"op": "send", "data": {"__kind__": "get_task_states"}})
            else:
                script.append({"op": "send", "data": {"__kind__": "cancel_task", "tid": rng.choice([0, 1, 2, 99999, -1, None])}})
        if rng.random() < 0.25:
            # stops reading its answers but keeps asking: its own handler may block for ever, nobody else's
            pos = rng.randrange(len(script) + 1)
            script.insert(pos, {"op": "stall"})
            for _ in range(rng.randint(1, 3)):
                script.insert(pos + 1, {"op": "send", "data": {"__kind__": "get_task_states"}})
            script.append({"op": rng.choice(["drop", "none", "none"]), "hard": False})
        else:
            script.append({"op": rng.choice(["drop", "drop", "eof", "eof", "none"]), "hard": rng.random() < 0.5})
        script = [s for s in script if s["op"] != "none"]
        if rng.random() < 0.3:
            script.insert(rng.randrange(len(script) + 1), {"op": "drop", "hard": rng.random() < 0.5})
        clients.append({"role": "abuser", "script": script})
    return {"max_cores": rng.choice([1, 2, 3]), "tasks": tasks, "clients": clients, "adv_seed": rng.randrange(1 << 30), "cancels": 0, "bursts": rng.random() < 0.3, "exit_codes": [0, 0, 0, 1], "timeout_s": 10}


def on_timeout(case, frames, timeout_s):
    return poolcase.on_timeout(case, frames, timeout_s)


def run_case(case):
    if case.get("lane") == "real":
        return run_real(case)
    res = Result()
    d = tempfile.mkdtemp(prefix="gwfv-pool-")
    try:
        # bind the working directory into the scripted messages
        for c in case["clients"]:
            for s in c["script"]:
                for m in s.get("batch") or [s.get("data")]:
                    if isinstance(m, dict) and m.get("working_dir") == "@WD@":
                        m["working_dir"] = d
        h = vloop.run_harness(case, d)
        evaluate(h, res, d)
        res.sig = poolcase.event_string(h, 80)
        res.obs("events", h.events[:60])
        res.obs("healthy_client_responses", h.responses_of(0)[:12])
        res.obs("final_states", h.snapshots[-1]["states"] if h.snapshots else None)
        ev = [e for e in h.events if e["kind"] == "client"]
        res.nontrivial = any(e["conn"] != 0 for e in ev) and any(e["kind"] == "spawn" for e in h.events)
    finally:
        shutil.rmtree(d, ignore_errors=True)
    return res


def evaluate(h, res, workdir):
    case = h.case
    if getattr(h, "aborted", False):
        res.inconclusive = "virtual run hit the quiescent-point cap"
        return
    acc, deps, spawned = vloop.replay_model(h)
    final = h.snapshots[-1]["states"] if h.snapshots else {}
    # 1. ids pairwise distinct (every id ever handed out)
    handed = []
    for ci in range(len(h.conns)):
        for m in h.responses_of(ci):
            if m.get("__kind__") == "task_enqueued":
                handed.append(m["tid"])
    res.mon("accepted_tasks", len(h.all_tids))
    if h.probe is None:
        res.inconclusive = "liveness probe was never started"
        return
    if len(set(h.all_tids)) != len(h.all_tids):
        res.violation("duplicate-id", "scheduler handed out duplicate ids: %s" % h.all_tids, **poolcase.witness(h))
    if len(set(handed)) != len(handed):
        res.violation("duplicate-id", "clients were told duplicate ids: %s" % handed, **poolcase.witness(h))
    # 2. healthy client: one response per request that has one, in order
    healthy_script = case["clients"][0]["script"]
    want_kinds = []
    for k in [m["__kind__"] for s in healthy_script for m in (s.get("batch") or [s["data"]])]:
        if k == "enqueue_task":
            want_kinds.append("task_enqueued")
        elif k == "get_task_states":
            want_kinds.append("task_states")
        elif k == "get_task_state":
            want_kinds.append("task_state")
    got = h.responses_of(0)
    res.mon("healthy_responses", len(got))
    if [m.get("__kind__") for m in got] != want_kinds:
        res.violation("healthy-client-disturbed", "healthy client sent %d requests expecting %s but received %s" % (len(healthy_script), want_kinds, [m.get("__kind__") for m in got]), **poolcase.witness(h))
    else:
        # the ids it was told are the ids of its own tasks
        told = [m["tid"] for m in got if m["__kind__"] == "task_enqueued"]
        mine = [h.tid_of_idx.get(i) for i, t in enumerate(case["tasks"]) if not t.get("abuser")]
        if told != mine:
            res.violation("wrong-id", "healthy client was told ids %s for its tasks whose ids are %s" % (told, mine), **poolcase.witness(h))
        # every state reply lists every task whose acceptance the same client was told BEFORE that reply, with a
        # legal state, and a final state once reported never changes in a later reply
        seen_ids, last = [], {}
        for m in got:
            if m["__kind__"] == "task_enqueued":
                seen_ids.append(m["tid"])
            elif m["__kind__"] == "task_states":
                res.mon("state_replies_checked")
                tasks_ = m.get("tasks") or {}
                missing = [t for t in seen_ids if str(t) not in tasks_]
                if missing:
                    res.violation("state-query-incomplete", "a state reply to the healthy client does not list task(s) %s whose acceptance it had been told before (reply lists %s)" % (missing, sorted(tasks_)), **poolcase.witness(h))
                    break
                for t, v in tasks_.items():
                    if last.get(t) in vloop.FINAL and v != last[t]:
                        res.violation("illegal-transition", "task %s was reported %s and later %s" % (t, last[t], v), **poolcase.witness(h))
                    last[t] = v
    res.mon("abusive_lines", sum(1 for e in h.events if e["kind"] == "client" and e["conn"] != 0))
    # 3. every accepted task final, in the state the model implies
    probe_tid = h.all_tids[-1] if h.probe is not None and h.all_tids else None
    all_tids = h.all_tids[:-1] if probe_tid is not None else list(h.all_tids)
    for tid in all_tids:
        st = final.get(tid)
        want = acc.get(tid)
        if st not in vloop.FINAL:
            res.violation("accepted-task-not-final", "accepted task %s is %s when nothing is left to happen" % (tid, st), **poolcase.witness(h))
        elif want and st not in want:
            res.violation("wrong-final-state", "task %s ended %s; the model implies %s" % (tid, st, sorted(want)), **poolcase.witness(h))
    live = [p.pid for p in h.procs if p.live]
    if live:
        res.violation("process-left-running", "live processes at the end: %s" % live, **poolcase.witness(h))
    # 4. liveness probe on the same scheduler/server objects: fresh connection, query + enqueue
    probe = probe_server(h, workdir)
    res.mon("liveness_probes")
    if probe.get("error"):
        res.violation("server-dead", "fresh connection after the abuse: %s" % probe["error"], **poolcase.witness(h))
        return
    states = probe["states"]
    before = h.probe_states_before
    for tid in all_tids:
        if str(tid) not in states:
            res.violation("state-query-incomplete", "state query does not list accepted task %s" % tid, states=states)
        elif states[str(tid)] != before.get(tid):
            res.violation("state-query-wrong", "state query reports %s for task %s whose state is %s" % (states[str(tid)], tid, before.get(tid)))
    if probe["new_tid"] in all_tids:
        res.violation("duplicate-id", "fresh client got id %s which is already in use" % probe["new_tid"])


def probe_server(h, workdir):
    """the harness opened a fresh connection when nothing was left to happen (Harness.start_probe)"""
    out = {}
    if h.probe is None:
        return {"error": "probe never started"}
    msgs = []
    for ln in h.probe["out"].split(b"\n"):
        if ln.strip():
            try:
                msgs.append(json.loads(ln))
            except ValueError:
                msgs.append({"__kind__": "unparsable"})
    kinds = [m.get("__kind__") for m in msgs]
    if kinds != ["task_states", "task_enqueued"]:
        return {"error": "fresh connection got responses %s" % kinds}
    out["states"] = msgs[0]["tasks"]
    out["new_tid"] = msgs[1]["tid"]
    return out


# --------------------------------------------------------------------------
# real lane
# --------------------------------------------------------------------------


def run_real(case):
    import socket
    import threading

    from .. import realpool

    res = Result()
    rng = random.Random(case["seed"])
    with gen.Project() as proj:
        n = rng.randint(8, 14)
        ts = []
        for i in range(n):
            dep = "['w%d.out']" % rng.randrange(i) if i and rng.random() < 0.5 else "[]"
            rc = 0 if rng.random() < 0.8 else 3
            ts.append({"name": "w%d" % i, "ins_expr": dep, "outs_expr": "['w%d.out']" % i, "spec": "sleep 0.%d\necho %d > w%d.out\nexit %d\n" % (rng.randint(1, 4), i, i, rc), "route": "target", "rc": rc, "dep": dep})
        proj.write_workflow(gen.render_workflow(ts))
        with realpool.Pool(proj, ncores=3) as pool:
            env = cli.env_for(None, ())
            stop = threading.Event()
            abuse_count = [0]

            def abuser(seed):
                r = random.Random(seed)
                while not stop.is_set():
                    try:
                        s = socket.create_connection(("127.0.0.1", pool.port), timeout=2)
                        for _ in range(r.randint(1, 5)):
                            payload = r.choice(ABUSE_RAW + ['{"__kind__": "enqueue_task", "name": "junk", "script": "true", "working_dir": "/nonexistent/dir", "time_limit": null, "deps": [99999]}\n'])
                            s.sendall(payload.encode("latin-1"))
                            abuse_count[0] += 1
                            if r.random() < 0.3:
                                break
                        if r.random() < 0.5:
                            s.setsockopt(socket.SOL_SOCKET, socket.SO_LINGER, b"\x01\x00\x00\x00\x00\x00\x00\x00")  # RST on close
                        s.close()
                        time.sleep(0.004)  # bounded connection rate: abuse, not a SYN flood of the listen backlog
                    except OSError:
                        time.sleep(0.01)

            ths = [threading.Thread(target=abuser, args=(case["seed"] + i,), daemon=True) for i in range(3)]
            for t in ths:
                t.start()
            try:
                r = cli.gwf(proj.root, ["run"], env, audit=False)
                if r.rc != 0:
                    res.violation("healthy-client-disturbed", "gwf -b local run failed while another client misbehaved", **cli.crash_witness(r))
                    return res
                tid = proj.state_files().get("local-backend-tracked.json", {})
                if sorted(tid) != sorted(t["name"] for t in ts):
                    res.violation("healthy-client-disturbed", "not all targets tracked: %s" % tid)
                    return res
                if len(set(tid.values())) != len(tid):
                    res.violation("duplicate-id", "healthy client got duplicate ids %s" % tid)
                ok = pool.wait_states(lambda st: all(st.get(i) in ("COMPLETED", "FAILED", "CANCELLED", "KILLED") for i in tid.values()), timeout=60)
                r2 = cli.gwf(proj.root, ["status"], env, audit=False)
            finally:
                stop.set()
                for t in ths:
                    t.join(timeout=5)
            res.mon("abusive_lines", abuse_count[0])
            if not pool.alive():
                res.violation("server-dead", "worker pool exited under abuse: %s" % pool.read_log()[-600:])
                return res
            if not ok:
                res.violation("accepted-task-not-final", "tasks of the healthy client did not finish: %s" % pool.states())
                return res
            st = pool.states()
            res.mon("accepted_tasks", len(st))
            res.mon("real_tasks", len(tid))
            # expected final state per task from its own script and its dependency
            exp = {}
            for t in ts:
                depname = t["dep"].strip("[]'").replace(".out", "") if t["dep"] != "[]" else None
                if depname and exp[depname] != "COMPLETED":
                    exp[t["name"]] = "FAILED"
                else:
                    exp[t["name"]] = "COMPLETED" if t["rc"] == 0 else "FAILED"
            for name, want in exp.items():
                got = st.get(tid[name])
                if got != want:
                    res.violation("wrong-final-state", "real pool: %s is %s, its own script implies %s" % (name, got, want), states=st)
                has = os.path.exists(os.path.join(proj.root, name + ".out"))
                ran = want == "COMPLETED" or (want == "FAILED" and exp.get(t["name"]) and all(True for _ in [0]))
                if want == "COMPLETED" and not has:
                    res.violation("side-effect-missing", "real pool: %s reported COMPLETED but its output file is missing" % name)
            table = dict(cli.parse_status(r2.out))
            res.mon("healthy_responses", len(table))
            for name, want in exp.items():
                shown = table.get(name)
                wantshown = "completed" if want == "COMPLETED" else "failed"
                if shown != wantshown:
                    res.violation("healthy-client-disturbed", "gwf status shows %s=%s, truth %s" % (name, shown, want), table=table)
            # junk tasks accepted from the abusers must be final too
            nonfinal = {k: v for k, v in st.items() if v not in ("COMPLETED", "FAILED", "CANCELLED", "KILLED")}
            if nonfinal:
                ok2 = pool.wait_states(lambda s: all(v in ("COMPLETED", "FAILED", "CANCELLED", "KILLED") for v in s.values()), timeout=20)
                if not ok2:
                    res.violation("accepted-task-not-final", "accepted (malformed) tasks never became final: %s" % {k: v for k, v in pool.states().items() if v not in ("COMPLETED", "FAILED", "CANCELLED", "KILLED")})
            # fresh client can still enqueue
            try:
                t_new = pool.raw_enqueue("fresh", "true", proj.root)
                res.mon("liveness_probes")
                if t_new in st:
                    res.violation("duplicate-id", "fresh client got an id already in use: %s" % t_new)
            except Exception as e:  # noqa: BLE001
                res.violation("server-dead", "fresh client could not enqueue: %r" % (e,))
            # two clients submit the very same task (same name, script, directory, limit, dependencies) while the first
            # one is still active: two accepted tasks, two ids, both run
            try:
                same = "sleep 1; echo run >> same.txt"
                ia = pool.raw_enqueue("same", same, proj.root)
                ib = pool.raw_enqueue("same", same, proj.root)
                res.mon("identical_submissions")
                if ia == ib:
                    res.violation("duplicate-id", "two identical submissions from two clients were given the same id %s" % ia)
                else:
                    pool.wait_states(lambda s_: s_.get(ia) == "COMPLETED" and s_.get(ib) == "COMPLETED", timeout=30)
                    try:
                        lines_ = open(os.path.join(proj.root, "same.txt")).read().count("run")
                    except FileNotFoundError:
                        lines_ = 0
                    if pool.states().get(ia) != "COMPLETED" or pool.states().get(ib) != "COMPLETED" or lines_ != 2:
                        res.violation("accepted-task-not-final", "two identical submissions: states %s/%s, the script ran %d time(s)" % (pool.states().get(ia), pool.states().get(ib), lines_))
            except Exception as e:  # noqa: BLE001
                res.violation("server-dead", "identical submissions: %r" % (e,))
        # ---- arbitrary numbers of tasks: far more waiting tasks than the pool process may hold file descriptors
        if case["seed"] % 2 == 0:
            with gen.Project() as proj2:
              proj2.write_workflow("from gwf import Workflow\ngwf = Workflow()\n")
              with realpool.Pool(proj2, ncores=2, nofile=64) as pool2:
                blockers = [pool2.raw_enqueue("blocker%d" % i, "sleep 2", proj2.root) for i in range(2)]
                many = []
                c2 = pool2.client()
                for i in range(150):
                    c2.send("enqueue_task", name="q%d" % i, script="true", working_dir=proj2.root, time_limit=None, deps=[])
                    many.append(c2.recv()["tid"])
                c2.close()
                pool2.wait_states(lambda s_: all(s_.get(t_) in ("COMPLETED", "FAILED", "CANCELLED", "KILLED") for t_ in many + blockers), timeout=90)
                st2 = pool2.states()
                res.mon("waiting_tasks_under_fd_limit", len(many))
                notdone = [t_ for t_ in many + blockers if st2.get(t_) != "COMPLETED"]
                if not pool2.alive():
                    res.violation("server-dead", "pool with 64 file descriptors died with 150 waiting tasks: %s" % pool2.read_log()[-400:])
                elif notdone:
                    res.violation("accepted-task-not-final", "pool with 64 file descriptors, 2 cores, 150 waiting `true` tasks: %d did not end COMPLETED (e.g. %s)" % (len(notdone), {t_: st2.get(t_) for t_ in notdone[:4]}))
        res.sig = ("real", n, case["seed"] % 5)
        res.nontrivial = abuse_count[0] > 0
    return res
