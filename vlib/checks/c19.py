"""C19 — workflow definition: paths and names mean the same wherever gwf is run."""

import json
import os
import random
import subprocess
import sys

from .. import cli, gen, model
from ..core import REPO, Result
from ..simcluster import SimCluster

ID = "C19"
LEVEL = "exploration"
RULE = (
    "where lane: a project whose workflow.py creates targets by every route (gwf.target, target_from_template with a "
    "template that sets no working directory / an explicit one, map with default, string and function naming over "
    "str/tuple/dict items), Workflow() with the default or an explicit working_dir; info, status, config set and touch "
    "are run from the project root, a nested subdirectory (parent search), and an unrelated directory with -f <abs> and "
    "-f <rel>; observations (info JSON, status rows, files created by touch in the whole tree, location of .gwf/ and "
    ".gwfconf.json) must be identical across invoking directories and equal to 'relative to the workflow's working "
    "directory'. names lane: candidate names (identifier-like, leading digit, dots, dashes, spaces, unicode letters, "
    "trailing newline, empty, non-str) through Target / gwf.target / template / map; accepted iff the whole string "
    "matches [A-Za-z_][A-Za-z0-9_.]*; duplicates rejected. paths lane: str, Path, empty, control characters, non-path "
    "objects as inputs/outputs/working_dir; map lane: one target per item, distinct deterministic names. Non-trivial: "
    "where-cases with a template target invoked from a foreign directory; name/path cases that are edge cases (newline, "
    "unicode, control char, Path). distinct = case parameters."
)
ASSUMPTIONS = ["non-ASCII letters in names: either outcome accepted", "any exception at definition time counts as 'rejected'"]


QUICK_BUDGET = {"cases": 7200, "deadline_s": 170, "case_timeout_s": 120, "floors": {"where_observations": 71, "names_checked": 985, "paths_checked": 1007, "maps_checked": 200}}
THOROUGH_FACTOR = 10  # thorough = the same workload with 10x the cases (floors scale along)


def budget(tier):
    from ..core import scaled_budget

    return scaled_budget(QUICK_BUDGET, tier, THOROUGH_FACTOR, noscale=())


NAME_POOL = [
    ("foo", True), ("Foo_1", True), ("_x", True), ("a.b", True), ("a.b.c_9", True), ("x" * 200, True), ("A", True),
    ("1abc", False), ("a-b", False), ("a b", False), ("", False), ("foo\n", False), ("foo\n\n", False), ("\nfoo", False),
    ("a\tb", False), ("foo ", False), (" foo", False), (".a", False), ("a/b", False), ("a$", False), ("a*", False),
    ("ünï", None), ("aé", None), ("Ω", None), ("á", None), ("foo\r", False), ("foo\x00", False), ("a;b", False), ("-a", False),
    ("ta\u017fk", None), ("tas\u212a", None), ("\u0130x", None), ("x\u0131", None), ("a\u00df", None), ("\u00e9", None),
]
NONSTR_NAMES = ["5", "None", "3.5", "['a']", "b'foo'"]
PATH_POOL = [
    ("'x.txt'", True), ("'d/x.txt'", True), ("'with space.txt'", True), ("Path('p.txt')", True), ("Path('d') / 'q.txt'", True),
    ("'ünï.txt'", True), ("'a$b;c&d.txt'", True), ("''", False), ("'a\\nb'", False), ("'a\\x00b'", False), ("'a\\tb'", False),
    ("'a\\x7fb'", False), ("'a\\x85b'", False), ("5", False), ("None", False), ("3.5", False), ("object()", False), ("b'bytes.txt'", False),
    ("['ok.txt', '']", False), ("{'k': 'ok.txt', 'bad': 'x\\ry'}", False), ("['ok.txt', Path('ok2.txt')]", True), ("[['nested.txt'], ('tup.txt',)]", True),
    ("Path('')", None),
    ("'reads.fq\\n'", False), ("'\\tx.txt'", False), ("'a.txt\\r\\n'", False), ("'\\x00start'", False), ("'end\\x7f'", False), ("Path('p.txt\\n')", False),
    ("{'reads': 'r.fq', 'adapters': ''}", False), ("[{'a': 'x.txt'}, {'b': ''}]", False), ("{'outer': {'inner': ''}}", False), ("{'k': ['ok.txt', '']}", False),
    ("' '", None), ("'x.txt '", True),
]


def gen_case(rng, idx, tier):
    k = 0 if idx % 60 == 0 else 1 + (idx % 5)
    if k == 0:
        return {
            "lane": "where",
            "wf_wd": rng.choice(["default", "default", "explicit"]),
            "tpl_wd": rng.choice(["none", "none", "explicit"]),
            "items": rng.choice([["m1", "m2"], [["t1"], ["t2"]], [{"x": "d1"}, {"x": "d2"}, {"x": "d3"}]]),
            "dirs": rng.sample(["root", "nested", "abs", "rel"], 3) + ["root"],
            "custom": rng.random() < 0.35,  # workflow file / object with non-default names: -f flow.py:wf
            "seed": rng.randrange(1 << 30),
        }
    if k in (1, 2):
        nm, ok = rng.choice(NAME_POOL)
        if rng.random() < 0.3:
            # random composition
            alphabet = "abzAZ09_.- \n\t/é"
            nm = "".join(rng.choice(alphabet) for _ in range(rng.randint(1, 6)))
            ok = "compute"
        nonstr = rng.choice(NONSTR_NAMES) if rng.random() < 0.1 else None
        return {"lane": "names", "name": nm, "expect": ok, "route": rng.choice(["Target", "target", "template", "map_str", "map_fn"]), "nonstr": nonstr}
    if k in (3, 4):
        pe, ok = rng.choice(PATH_POOL)
        return {"lane": "paths", "expr": pe, "expect": ok, "where": rng.choice(["inputs", "outputs", "working_dir"]), "route": rng.choice(["Target", "target", "template"])}
    return {
        "lane": "map",
        "naming": rng.choice(["default_fn", "default_cls", "string", "function", "function_dup"]),
        "items": rng.choice(["str", "tuple", "dict"]),
        "n": rng.randint(0, 7),
        "extra": rng.random() < 0.3,
        "iterable": rng.choice(["list", "list", "tuple", "generator", "iterator", "mapobj"]),
    }


def run_case(case):
    return {"where": run_where, "names": run_names, "paths": run_paths, "map": run_map}[case["lane"]](case)


# --------------------------------------------------------------------------
def run_child(code, cwd):
    """definition-time experiments run in a fresh interpreter (definition has global side effects)"""
    p = subprocess.run([sys.executable, "-c", "import sys; sys.path.insert(0, %r)\n" % os.path.join(REPO, "src") + code], cwd=cwd, capture_output=True, text=True, timeout=60)
    return p


def name_ok(nm):
    if not isinstance(nm, str) or nm == "":
        return False
    if any(ord(c) > 127 for c in nm):
        return None
    first = nm[0]
    if not (first.isalpha() or first == "_"):
        return False
    return all(c.isalnum() or c in "_." for c in nm)


def run_names(case):
    from .. import inproc

    res = Result()
    nm = case["name"]
    want = name_ok(nm) if case["expect"] == "compute" else case["expect"]
    if case["nonstr"]:
        nm = eval(case["nonstr"])
        want = False
    wf = inproc.Workflow(working_dir="/tmp")
    route = case["route"]
    try:
        if route == "Target":
            inproc.gwf.core.Target(name=nm, inputs=[], outputs=[], options={}, working_dir="/tmp")
        elif route == "target":
            wf.target(nm, inputs=[], outputs=[])
        elif route == "template":
            wf.target_from_template(nm, inproc.AnonymousTarget(inputs=[], outputs=[], options={}))
        elif route == "map_str":
            wf.map(lambda x: inproc.AnonymousTarget(inputs=[], outputs=[], options={}), ["a"], name=nm)
            nm_eff = "%s_0" % (nm,)
            want = False if case["nonstr"] else (name_ok(nm_eff) if isinstance(nm, str) else False)
            if isinstance(nm, str) and nm == "":
                want = name_ok("_0")
        elif route == "map_fn":
            wf.map(lambda x: inproc.AnonymousTarget(inputs=[], outputs=[], options={}), ["a"], name=lambda idx, t: nm)
        accepted = True
    except Exception as e:  # noqa: BLE001
        accepted = False
        err = repr(e)
    res.mon("names_checked")
    if want is None and isinstance(nm, str) and route in ("Target", "target", "template") and name_ok("".join(c if ord(c) < 128 else "a" for c in nm)):
        # non-ASCII LETTERS in an otherwise valid name: either policy is fine, but it has to be one policy -
        # the decision must equal the one taken for the reference name 'a\u00e9'
        if all(c.isalpha() or ord(c) < 128 for c in nm):
            try:
                inproc.gwf.core.Target(name="a\u00e9", inputs=[], outputs=[], options={}, working_dir="/tmp")
                ref = True
            except Exception:  # noqa: BLE001
                ref = False
            res.mon("unicode_consistency_checked")
            if accepted != ref:
                res.violation("name-unicode-inconsistent", "name %r accepted=%s although the non-ASCII letter name 'a\u00e9' accepted=%s: non-ASCII letters are not treated uniformly" % (nm, accepted, ref))
    if want is not None and accepted != want:
        mech = "name-trailing-newline" if (isinstance(nm, str) and nm.endswith("\n") and accepted) else "name-validation"
        res.violation(mech, "name %r via %s: accepted=%s, expected %s" % (nm, route, accepted, want))
    # duplicates
    if accepted and route in ("target", "template"):
        try:
            wf.target(nm, inputs=[], outputs=[])
            res.violation("duplicate-name-accepted", "second target named %r accepted" % nm)
        except Exception:  # noqa: BLE001
            pass
        res.mon("duplicates_checked")
    res.sig = ("names", repr(case["name"])[:30], route, case["nonstr"])
    res.nontrivial = isinstance(nm, str) and (nm.endswith("\n") or any(ord(c) > 127 for c in nm) or "." in nm)
    return res


def run_paths(case):
    from .. import inproc

    res = Result()
    Path = inproc.Path  # noqa: N806
    val = eval(case["expr"], {"Path": Path})
    want = case["expect"]
    where, route = case["where"], case["route"]
    if where == "working_dir":
        # a working directory is a single path, not a container
        if isinstance(val, (list, dict, tuple)):
            want = None
        route = "Target" if route == "target" else route
        if route == "template" and not val:
            want = None  # a template that sets no (or an empty) working directory inherits the workflow's
    kw = {"inputs": [], "outputs": [], "working_dir": "/tmp"}
    kw[where] = val
    wf = inproc.Workflow(working_dir="/tmp")
    try:
        if route == "Target":
            inproc.gwf.core.Target(name="t", options={}, **kw)
        elif route == "target":
            wf.target("t", inputs=kw["inputs"], outputs=kw["outputs"])
        else:
            wf.target_from_template("t", inproc.AnonymousTarget(inputs=kw["inputs"], outputs=kw["outputs"], options={}, working_dir=kw["working_dir"]))
        accepted = True
        err = None
    except Exception as e:  # noqa: BLE001
        accepted = False
        err = repr(e)
    res.mon("paths_checked")
    if want is not None and accepted != want:
        mech = "pathlike-rejected" if ("Path(" in case["expr"] and not accepted) else "path-validation"
        res.violation(mech, "%s=%s via %s: accepted=%s (%s), expected %s" % (where, case["expr"], route, accepted, err, want))
    res.sig = ("paths", case["expr"], where, route)
    res.nontrivial = "Path(" in case["expr"] or "\\" in case["expr"]
    return res


def run_map(case):
    from .. import inproc

    res = Result()
    A = inproc.AnonymousTarget  # noqa: N806

    def tpl(x, y="y"):
        return A(inputs=[], outputs=["%s_%s.out" % (x, y)], options={}, spec="echo %s" % x)

    class Tpl:
        def __call__(self, x, y="y"):
            return tpl(x, y)

    n = case["n"]
    if case["items"] == "str":
        items = ["s%d" % i for i in range(n)]
    elif case["items"] == "tuple":
        items = [("u%d" % i,) for i in range(n)]
    else:
        items = [{"x": "d%d" % i} for i in range(n)]
    extra = {"y": "E"} if case["extra"] else None
    func = Tpl() if case["naming"] == "default_cls" else tpl
    name = None
    if case["naming"] == "string":
        name = "custom"
    elif case["naming"] == "function":
        name = lambda idx, t: "f%d_%s" % (idx, len(t.outputs))  # noqa: E731
    elif case["naming"] == "function_dup":
        name = lambda idx, t: "same_%d" % (idx // 2)  # noqa: E731  (two items share a name: must be rejected)

    def build():
        wf = inproc.Workflow(working_dir="/tmp")
        # the items may arrive as a list, a tuple or a one-shot iterable (generator, iterator, map object)
        form = case.get("iterable", "list")
        given = {"list": lambda: list(items), "tuple": lambda: tuple(items), "generator": lambda: (i for i in items), "iterator": lambda: iter(items), "mapobj": lambda: map(lambda i: i, items)}[form]()
        out = wf.map(func, given, extra=extra, name=name)
        return wf, out

    if case["naming"] == "function_dup":
        res.mon("maps_checked")
        res.sig = ("map", case["naming"], case["items"], n, case["extra"])
        res.nontrivial = n >= 2
        try:
            wf, out = build()
        except Exception:  # noqa: BLE001
            return res  # rejected at definition: fine
        if n >= 2:
            res.violation("duplicate-name-accepted", "map with a naming function that returns the same name for two items was accepted: %d items, %d targets in the workflow, names %s" % (n, len(wf.targets), [t.name for t in out]))
        return res
    try:
        wf1, out1 = build()
        wf2, out2 = build()
    except Exception as e:  # noqa: BLE001
        res.violation("map-crash", "map raised %r for %d %s items, naming %s" % (e, n, case["items"], case["naming"]))
        return res
    res.mon("maps_checked")
    names1 = [t.name for t in out1]
    names2 = [t.name for t in out2]
    if len(out1) != n or len(wf1.targets) != n:
        res.violation("map-count", "map over %d items produced %d targets" % (n, len(out1)))
    if len(set(names1)) != len(names1):
        res.violation("map-names", "map produced duplicate names %s" % names1)
    if names1 != names2:
        res.violation("map-names", "map names are not deterministic: %s vs %s" % (names1, names2))
    prefix = {"default_fn": "tpl", "default_cls": "Tpl", "string": "custom"}.get(case["naming"])
    if prefix is not None and names1 != ["%s_%d" % (prefix, i) for i in range(n)]:
        res.violation("map-names", "names %s; expected %s_<index>" % (names1, prefix))
    for i, t in enumerate(out1):
        want_out = "%s_%s.out" % (items[i] if case["items"] == "str" else (items[i][0] if case["items"] == "tuple" else items[i]["x"]), "E" if case["extra"] else "y")
        if t.outputs != [want_out]:
            res.violation("map-args", "target %d got outputs %s; expected %s" % (i, t.outputs, [want_out]))
    # one template OBJECT used in two workflows with different working directories (a shared template constant, a
    # memoised template function): each target lives in the directory of the workflow it was added to
    shared = tpl("shared")
    wf_a = inproc.Workflow(working_dir="/tmp/wa")
    wf_b = inproc.Workflow(working_dir="/tmp/wb")
    try:
        ta = wf_a.target_from_template("s", shared)
        tb = wf_b.target_from_template("s", shared)
        tm = wf_b.map(lambda x: shared, ["only"], name="m")[0]
        got_ = (ta.flattened_outputs(), tb.flattened_outputs(), tm.flattened_outputs())
        res.mon("shared_template_checked")
        if got_ != (["/tmp/wa/shared_y.out"], ["/tmp/wb/shared_y.out"], ["/tmp/wb/shared_y.out"]):
            res.violation("template-shared-state", "one template object added to workflows in /tmp/wa and /tmp/wb gives outputs %s" % (got_,))
    except Exception as e:  # noqa: BLE001
        res.violation("map-crash", "sharing a template object between two workflows raised %r" % (e,))
    res.sig = ("map", case["naming"], case["items"], n, case["extra"], case.get("iterable", "list"))
    res.nontrivial = n >= 2
    return res


# --------------------------------------------------------------------------
WF_TEMPLATE = '''from gwf import Workflow, AnonymousTarget
from templates import imported_tpl  # the templates.py NEXT TO this file, wherever gwf is started from

gwf = Workflow(%(wfkw)s)

def tpl(x):
    return AnonymousTarget(inputs=['in/%%s.txt' %% x], outputs=['out/%%s.res' %% x], options={}, spec='echo %%s' %% x%(tplwd)s)

class Klass:
    def __call__(self, x):
        return tpl('k' + x)

gwf.target('direct', inputs=['in/a.txt'], outputs=['out/direct.res']) << 'echo direct'
gwf.target_from_template('fromtpl', tpl('b'))
gwf.map(tpl, %(items)r)
gwf.map(Klass(), ['1'])
gwf.map(tpl, ['n1'], name='named')
gwf.map(tpl, [{'x': 'f1'}], name=lambda idx, t: 'fn_%%d' %% idx)
gwf.target('consumer', inputs=['out/b.res', 'out/direct.res'], outputs=['out/final.res']) << 'echo final'
gwf.target_from_template('imported', imported_tpl())
# the workflow's own glob helpers list files relative to the workflow's working directory, not the invoking one
for _i, _p in enumerate(sorted(gwf.glob('in/g*.txt'))):
    gwf.target('glob%%d' %% _i, inputs=[_p], outputs=['out/glob%%d.res' %% _i]) << 'echo g'
for _i, _p in enumerate(sorted(gwf.iglob('in/h*.txt'))):
    gwf.target('iglob%%d' %% _i, inputs=[_p], outputs=['out/iglob%%d.res' %% _i]) << 'echo h'
for _i, _n in enumerate(sorted(gwf.shell("ls in | grep '^g'", universal_newlines=True).split())):
    gwf.target('shell%%d' %% _i, inputs=['in/' + _n], outputs=['out/shell%%d.res' %% _i]) << 'echo s'
# a template living in a sub-directory of the workflow's directory that reaches UP with a leading '..'
gwf.target_from_template('up', AnonymousTarget(inputs=['../out/direct.res', './../in/a.txt'], outputs=['../out/up.res'], options={}, spec='echo up', working_dir=%(updir)r))
'''


def build_project(case, base):
    """-> (project root, dict of info)"""
    root = os.path.join(base, "proj")
    os.makedirs(os.path.join(root, "sub", "deep"), exist_ok=True)
    other = os.path.join(base, "otherwd")
    tplwd_dir = os.path.join(base, "tplwd")
    wfkw = ""
    wf_wd = root
    if case["wf_wd"] == "explicit":
        wfkw = "working_dir=%r" % other
        wf_wd = other
    tpl_wd = wf_wd
    tplwd = ""
    if case["tpl_wd"] == "explicit":
        tplwd = ", working_dir=%r" % tplwd_dir
        tpl_wd = tplwd_dir
    os.makedirs(os.path.join(wf_wd, "updir"), exist_ok=True)
    src = WF_TEMPLATE % {"wfkw": wfkw, "tplwd": tplwd, "items": case["items"], "updir": os.path.join(wf_wd, "updir")}
    fname = "workflow.py"
    if case.get("custom"):
        src = src.replace("gwf = Workflow(", "wf = Workflow(").replace("\ngwf.", "\nwf.").replace("(gwf.", "(wf.").replace("    gwf.", "    wf.")
        fname = "flow.py"
    with open(os.path.join(root, fname), "w") as f:
        f.write(src)
    with open(os.path.join(root, "templates.py"), "w") as f:
        f.write("from gwf import AnonymousTarget\n\ndef imported_tpl():\n    return AnonymousTarget(inputs=[], outputs=['out/imported.res'], options={}, spec='echo real')\n")
    # decoy modules of the same name in the directories gwf is started from
    for dd in (os.path.join(base, "elsewhere", "x"), os.path.join(root, "sub", "deep")):
        os.makedirs(dd, exist_ok=True)
        with open(os.path.join(dd, "templates.py"), "w") as f:
            f.write("from gwf import AnonymousTarget\n\ndef imported_tpl():\n    return AnonymousTarget(inputs=[], outputs=['out/DECOY.res'], options={}, spec='echo decoy')\n")
    # source files where the workflow means them
    items = [i if isinstance(i, str) else (i[0] if isinstance(i, list) else i["x"]) for i in case["items"]]
    for d, xs in ((wf_wd, ["a", "g1", "g2", "h1"]), (tpl_wd, ["b", "k1", "n1", "f1"] + items)):
        os.makedirs(os.path.join(d, "in"), exist_ok=True)
        os.makedirs(os.path.join(d, "out"), exist_ok=True)
        for x in xs:
            p = os.path.join(d, "in", x + ".txt")
            with open(p, "w") as f:
                f.write(x)
            os.utime(p, ns=(gen.BASE_T * 10**9, gen.BASE_T * 10**9))
    # expected outputs
    exp = {os.path.join(wf_wd, "out/direct.res"), os.path.join(wf_wd, "out/final.res"), os.path.join(wf_wd, "out/up.res")}
    exp |= {os.path.join(wf_wd, "out", x) for x in ("glob0.res", "glob1.res", "iglob0.res", "shell0.res", "shell1.res", "imported.res")}
    # decoys: files of the same pattern below the directories gwf is invoked from
    for dd, names in ((os.path.join(base, "elsewhere", "x", "in"), ["g7.txt", "g8.txt", "g9.txt", "h7.txt", "h8.txt"]), (os.path.join(root, "sub", "deep", "in"), ["g5.txt", "h5.txt", "h6.txt"])):
        os.makedirs(dd, exist_ok=True)
        for nm in names:
            with open(os.path.join(dd, nm), "w") as f:
                f.write("decoy")
    for x in ["b", "k1", "n1", "f1"] + items:
        exp.add(os.path.join(tpl_wd, "out", x + ".res"))
    consumer_dep_ok = tpl_wd == wf_wd  # consumer reads out/b.res relative to the workflow dir
    if not consumer_dep_ok:
        p = os.path.join(wf_wd, "out", "b.res")  # it is a plain source then
        with open(p, "w") as f:
            f.write("src")
        os.utime(p, ns=(gen.BASE_T * 10**9, gen.BASE_T * 10**9))
    exp_deps = {"consumer": ["direct", "fromtpl"] if consumer_dep_ok else ["direct"], "up": ["direct"], "direct": [], "fromtpl": [], "glob0": [], "glob1": [], "iglob0": [], "shell0": [], "shell1": [], "imported": []}
    return root, {"expected_outputs": exp, "wf_wd": wf_wd, "tpl_wd": tpl_wd, "expected_deps": exp_deps}


def run_where(case):
    res = Result()
    observations = {}
    for dkind in case["dirs"]:
        if dkind in observations:
            continue
        with gen.Project() as proj:
            base = proj.base
            root, info = build_project(case, base)
            SimCluster(proj.simdir, "slurm")
            env = cli.env_for(proj.simdir, ("slurm",))
            elsewhere = os.path.join(base, "elsewhere", "x")
            os.makedirs(elsewhere, exist_ok=True)
            fn, suffix = ("flow.py", ":wf") if case.get("custom") else ("workflow.py", "")
            if dkind == "root":
                cwd, pre = root, (["-f", fn + suffix] if case.get("custom") else [])
            elif dkind == "nested":
                cwd, pre = os.path.join(root, "sub", "deep"), (["-f", fn + suffix] if case.get("custom") else [])
            elif dkind == "abs":
                cwd, pre = elsewhere, ["-f", os.path.join(root, fn) + suffix]
            else:
                cwd, pre = elsewhere, ["-f", "../../proj/" + fn + suffix]
            before = gen.snapshot(base)
            obs = {}
            r = cli.gwf(cwd, pre + ["-b", "slurm", "info"], env, audit=False, cwd_on_path=True)
            obs["info_rc"] = r.rc
            try:
                inf = json.loads(r.out.replace(base, "@BASE@"))  # every observation lives in its own temporary base
                obs["info"] = {k: (sorted(v["dependencies"]), sorted(v["dependents"]), v["inputs"], v["outputs"]) for k, v in inf.items()}
            except ValueError:
                obs["info"] = "unparsable: " + (r.err or r.out)[-300:]
            r = cli.gwf(cwd, pre + ["-b", "slurm", "status"], env, audit=False, cwd_on_path=True)
            obs["status_rc"] = r.rc
            obs["status"] = sorted(cli.parse_status(r.out))
            r = cli.gwf(cwd, pre + ["config", "set", "foo", "1"], env, audit=False)
            obs["config_rc"] = r.rc
            r = cli.gwf(cwd, pre + ["-b", "slurm", "touch"], env, audit=False, cwd_on_path=True)
            obs["touch_rc"] = r.rc
            after = gen.snapshot(base)
            d = gen.snap_diff(before, after)
            created = sorted(p for p in d["added"] if not p.endswith("/") and "/.gwf/" not in "/" + p and not p.startswith("sim/") and not p.endswith(".gwfconf.json"))
            obs["created"] = created
            obs["gwf_dirs"] = sorted(p for p in after if p.rstrip("/").endswith(".gwf") and p.endswith("/"))
            obs["conf_files"] = sorted(p for p in after if p.endswith(".gwfconf.json"))
            exp_created = sorted(os.path.relpath(p, base) for p in info["expected_outputs"])
            res.mon("where_observations")
            # absolute oracle
            if obs["info_rc"] != 0 or obs["status_rc"] != 0 or obs["touch_rc"] != 0 or obs["config_rc"] != 0:
                res.violation("where-command-fails", "invoked from %s (%s): a command failed: info %s status %s config %s touch %s; %s" % (dkind, case["tpl_wd"], obs["info_rc"], obs["status_rc"], obs["config_rc"], obs["touch_rc"], str(obs["info"])[:300] if isinstance(obs["info"], str) else ""), case=case)
            elif isinstance(obs["info"], dict) and {k: obs["info"].get(k, [None])[0] for k in info["expected_deps"]} != info["expected_deps"]:
                res.violation("where-graph-wrong", "invoked from %s: dependencies reported by gwf info %s; the files named relative to the working directories give %s" % (dkind, {k: obs["info"].get(k, [None])[0] for k in info["expected_deps"]}, info["expected_deps"]), case=case)
            elif created != exp_created:
                res.violation("where-relative-to-cwd", "invoked from %s: touch created %s; relative to the workflow's working directory the outputs are %s" % (dkind, created, exp_created), case=case)
            if obs["gwf_dirs"] != ["proj/.gwf/"]:
                res.violation("state-dir-location", "invoked from %s: .gwf directories at %s; expected only proj/.gwf/" % (dkind, obs["gwf_dirs"]), case=case)
            if obs["conf_files"] != ["proj/.gwfconf.json"]:
                res.violation("state-dir-location", "invoked from %s: config files at %s; expected only proj/.gwfconf.json" % (dkind, obs["conf_files"]), case=case)
            observations[dkind] = obs
    res.obs("observations", {k: {"status": v["status"], "created": v["created"], "gwf_dirs": v["gwf_dirs"]} for k, v in observations.items()})
    keys = list(observations)
    ref = observations[keys[0]]
    for k in keys[1:]:
        o = observations[k]
        for field in ("info", "status", "created"):
            if o[field] != ref[field]:
                res.violation("where-differs", "%s differs between invoking from %s and from %s: %s vs %s" % (field, keys[0], k, str(ref[field])[:300], str(o[field])[:300]), case=case)
    res.sig = ("where", case["wf_wd"], case["tpl_wd"], tuple(sorted(set(case["dirs"]))), str(case["items"]), bool(case.get("custom")))
    res.nontrivial = any(k in ("abs", "rel", "nested") for k in keys)
    return res
