"""C12 — local pool never runs more tasks at once than the configured number of cores."""

import shutil
import tempfile

from .. import poolcase, vloop
from ..core import Result

ID = "C12"
LEVEL = "exploration"
TECHNIQUE = "runtime monitoring: real Scheduler on a virtual-time event loop; live-process count asserted at every spawn and every quiescent point; work-conservation invariant at quiescent points"
RULE = (
    "as C11, biased towards histories that stress the core counter: many dependents skipped because a dependency "
    "failed, cancels delivered while waiting for dependencies / for a core / while running / inside the kill sequence, "
    "start failures, followed by bursts of independent tasks. Monitors: live fake processes <= max_cores at every spawn "
    "and every quiescent point; work conservation at quiescent points (fewer cores held than configured => no task is "
    "SUBMITTED with all dependencies COMPLETED). A real-process lane checks overlap of start/end journal intervals. "
    "Non-trivial: at least one skipped or cancelled-while-waiting task precedes a later spawn. distinct = adversary "
    "event-order string."
)
ASSUMPTIONS = ["fake processes in the virtual lane; 'held' = tasks that reached the process factory and whose coroutine has not finished"]


QUICK_BUDGET = {"cases": 18000, "deadline_s": 170, "case_timeout_s": 90, "floors": {"spawn_events": 30000, "quiescent_points": 119499, "real_intervals": 20, "pinned_pool_checked": 6}}
THOROUGH_FACTOR = 17  # thorough = the same workload with 17x the cases (floors scale along)


def budget(tier):
    from ..core import scaled_budget

    return scaled_budget(QUICK_BUDGET, tier, THOROUGH_FACTOR, noscale=('real_intervals',))


def gen_case(rng, idx, tier):
    if idx % 401 == 7:
        return {"lane": "real", "seed": rng.randrange(1 << 30), "cores": rng.choice([1, 2, 3]), "n": rng.randint(6, 10)}
    c = poolcase.gen_pool_case(rng, faults=(idx % 3 == 0), bias={"cancel": 3, "enqueue": 3})
    # a tail of independent tasks after the stressful prefix
    for _ in range(rng.randint(0, 5)):
        c["tasks"].append({"deps": [], "time_limit": None})
    c["cancels"] = rng.choice([1, 2, 3, 5, 8])
    return c


def on_timeout(case, frames, timeout_s):
    return poolcase.on_timeout(case, frames, timeout_s)


def run_case(case):
    if case.get("lane") == "real":
        from .. import realpool_lanes

        return realpool_lanes.run_real_c12(case)
    res = Result()
    d = tempfile.mkdtemp(prefix="gwfv-pool-")
    try:
        h = vloop.run_harness(case, d)
        poolcase.eval_c12(h, res)
        res.sig = poolcase.event_string(h)
        res.obs("events", h.events[:60])
        res.obs("transitions", h.transitions[:40])
        res.obs("final_states", h.snapshots[-1]["states"] if h.snapshots else None)
        skipped = False
        for e in h.events:
            if e["kind"] == "cancel" and e.get("state_at_delivery") == "SUBMITTED":
                skipped = True
            if e["kind"] == "exit" and e["code"] != 0:
                skipped = True
        res.nontrivial = skipped and len(h.spawns) >= 2
    finally:
        shutil.rmtree(d, ignore_errors=True)
    return res
