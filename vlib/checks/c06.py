"""C06 — convergence: a successful run leaves everything complete; re-run is a no-op;
a perturbation re-runs exactly its downstream closure."""

import json
import os
import random
import time

from .. import cli, gen, model, scenario
from ..core import Inconclusive, Result
from ..simcluster import SimCluster

ID = "C06"
LEVEL = "exploration"
RULE = (
    "random DAGs (2-8 targets; diamonds, shared deps, forests, targets without outputs) whose job scripts really "
    "create their outputs (`cat inputs > out`, executed with bash by the simulated scheduler in the order a seeded "
    "adversary picks among runnable jobs); arbitrary initial file state; optional first phase with failed/cancelled "
    "jobs; Slurm/SGE/LSF simulators (the local pool is exercised end-to-end by C07/C13 harnesses); spec hashing on/off; "
    "optional target selection. After each drain: `gwf status` must show every cone target with outputs completed and "
    "the next `gwf run` must submit exactly the cone's no-output targets. Then 1-3 perturbation rounds (rewrite a source "
    "after a pause with strictness verified, or delete an output): the next run must submit exactly "
    "closure_dependents(consumers(modified) | producer(deleted)) within the cone plus no-output targets. Non-trivial: "
    "a diamond/shared dependency exists and some perturbation closure is a proper non-empty subset. distinct = (shape "
    "class, backend, perturbation kinds, closure sizes)."
)
ASSUMPTIONS = [
    "simulated schedulers stand in for Slurm/SGE/LSF; jobs are executed by /bin/bash from the submit directory",
    "'every legal order' is restated as: the orders the seeded adversary produced (counter distinct_orders)",
]


QUICK_BUDGET = {"cases": 112, "deadline_s": 170, "case_timeout_s": 150, "floors": {"drains": 134, "convergence_checked": 123, "perturbations": 75, "jobs_executed": 400}}
THOROUGH_FACTOR = 18  # thorough = the same workload with 18x the cases (floors scale along)


def budget(tier):
    from ..core import scaled_budget

    return scaled_budget(QUICK_BUDGET, tier, THOROUGH_FACTOR, noscale=(), case_timeout_s=300)


def make_spec(t):
    if not t["outs"]:
        return "true\n"
    lines = []
    if t.get("binary_output"):
        lines.append("printf 'caf\\351 \\377\\376 not utf-8\\n'")  # what a job prints is none of gwf's business
    for o in t["outs"]:
        if t["ins"]:
            lines.append("cat %s > %s" % (" ".join(t["ins"]), o))
        else:
            lines.append("echo %s > %s" % (t["name"], o))
    # some scripts are written without a trailing newline (one-liners: gwf.target(...) << "cat a > b")
    return "\n".join(lines) + ("" if t.get("no_trailing_newline") else "\n")


def gen_case(rng, idx, tier):
    sched = rng.choice(["slurm", "slurm", "sge", "lsf"])
    if idx % 9 == 4:
        sched = "local"
    dag = gen.gen_dag(rng, n_targets=rng.randint(2, 8), p_noout=0.1)
    ticks = {}
    for s in dag["sources"]:
        ticks[s] = rng.choice([0, 1, 2, 3])
    for t in dag["targets"]:
        mode = rng.choice(["allpresent", "random", "none", "none"])
        for o in t["outs"]:
            ticks[o] = {"allpresent": rng.choice([0, 1, 2, 3]), "none": None}.get(mode, rng.choice([None, 0, 1, 2, 3]))
        t["no_trailing_newline"] = rng.random() < 0.3
        t["binary_output"] = rng.random() < 0.3
        t["spec"] = make_spec(t)
    names = [t["name"] for t in dag["targets"]]
    perturbs = []
    for _ in range(rng.randint(1, 3)):
        perturbs.append({"kind": rng.choice(["modify", "delete"]), "pick": rng.randrange(1 << 20), "adv_seed": rng.randrange(1 << 30)})
    return {
        "sched": sched,
        "dag": dag,
        "ticks": ticks,
        "hashing": rng.random() < 0.35,
        "fail_phase": rng.random() < 0.4,
        "fail_seed": rng.randrange(1 << 30),
        "adv_seed": rng.randrange(1 << 30),
        "patterns": scenario.gen_selection(rng, names) if rng.random() < 0.3 else [],
        "perturbs": perturbs,
        "symlinks": [s for s in dag["sources"] if rng.random() < 0.3],
        "timeout_s": 280 if sched == "local" else None,
    }


def run_case(case):
    if case["sched"] == "local":
        return run_local(case)
    res = Result()
    sched = case["sched"]
    with gen.Project() as proj:
        ts = case["dag"]["targets"]
        sr = random.Random(case["adv_seed"])
        variant = [{"name": t["name"], "ins_expr": repr(gen.respell_list(sr, t["ins"], proj.root)), "outs_expr": repr(gen.respell_list(sr, t["outs"], proj.root, 0.1)), "spec": t["spec"], "route": "target"} for t in ts]
        for v_, t in zip(variant, ts):
            if not t["outs"] and sr.random() < 0.5:
                # no output FILES, declared as a non-empty but file-less structure: still "declares no outputs"
                v_["outs_expr"] = sr.choice(gen.EMPTY_TRUTHY + ["{'reports': []}", "[[], {'logs': ()}]"])
        proj.write_workflow(gen.render_workflow(variant))
        cfg = {"backend": sched}
        if case["hashing"]:
            cfg["use_spec_hashes"] = True
        proj.write_config(cfg)
        for f, tk in case["ticks"].items():
            if f in case.get("symlinks", ()) and tk is not None:
                proj.set_file(f, tk, symlink=True, link_tick=tk)  # data outside the project; rewritten in place later
            else:
                proj.set_file(f, tk)
        mts = [dict(t, wd=proj.root) for t in ts]
        by = {t["name"]: t for t in mts}
        deps, _, _ = model.dependency_relation(mts)
        inv = model.invert(deps)
        names = set(deps)
        sim = SimCluster(proj.simdir, sched)
        env = cli.env_for(proj.simdir, (sched,))
        pats = list(case["patterns"])
        sel = scenario.select(names, pats)
        selected = model.endpoints(deps) if sel is None else sel
        c = model.cone(selected, deps)
        noout = {n for n in c if not by[n]["outs"]}
        orders = []

        def gwf_run():
            seq0 = sim.seq()
            r = cli.gwf(proj.root, ["run"] + pats, env)
            if r.rc != 0:
                res.violation("crash", "gwf run failed", **cli.crash_witness(r))
                return None
            jobs = sim.jobs()
            return sorted(jobs[s["job"]]["name"] for s in sim.submissions(seq0))

        def drain_ok(seed):
            order = sim.drain(random.Random(seed), real=True)
            orders.append(tuple(k[0] + sim.jobs()[j]["name"] for k, j in order))
            res.mon("drains")
            res.mon("jobs_executed", sum(1 for k, _ in order if k == "finish"))
            bad = [j["name"] for j in sim.jobs().values() if j["phase"] == "finished" and j["exit"] != 0 and j["end_seq"] and j["end_seq"] > drain_ok.since]
            left = [j["name"] for j in sim.jobs().values() if j["phase"] in ("pending", "running")]
            return bad, left

        drain_ok.since = 0

        # optional first phase: some jobs fail or get cancelled; the system is then brought to a state
        # without pending/running jobs (stuck dependents are cancelled like Slurm's kill_invalid_depend)
        if case["fail_phase"]:
            sub = gwf_run()
            if sub is None:
                return res
            adv = random.Random(case["fail_seed"])
            fails = {n: adv.choice([1, 2]) for n in sub if adv.random() < 0.4}
            sim.drain(adv, real=True, fail=fails)
            for jid in sim.pending() + sim.running():
                sim.cancel(jid)
            res.count("fail_phase_cases")

        def check_converged(label):
            r = cli.gwf(proj.root, ["status"], env)
            if r.rc != 0:
                res.violation("crash", "gwf status failed", **cli.crash_witness(r))
                return False
            table = dict(cli.parse_status(r.out))
            res.mon("convergence_checked")
            notdone = sorted(n for n in c if by[n]["outs"] and table.get(n) != "completed")
            if notdone:
                res.violation("not-converged", "%s: after all jobs ran successfully these cone targets with outputs are not completed: %s" % (label, {n: table.get(n) for n in notdone}), sched=sched, table=table)
                return False
            sub = gwf_run()
            if sub is None:
                return False
            if sorted(sub) != sorted(noout):
                res.violation("rerun-not-noop", "%s: re-run after convergence submitted %s; expected only the no-output targets %s" % (label, sub, sorted(noout)), sched=sched)
                return False
            # bring the no-output jobs to an end so that nothing is in flight
            drain_ok.since = sim.seq()
            sim.drain(random.Random(1), real=True)
            return True

        drain_ok.since = sim.seq()
        sub = gwf_run()
        if sub is None:
            return res
        bad, left = drain_ok(case["adv_seed"])
        if bad or left:
            raise Inconclusive("jobs did not all succeed in the main drain: failed %s left %s" % (bad, left))
        ok = check_converged("initial")
        kinds, sizes = [], []
        if ok:
            for pi, p in enumerate(case["perturbs"]):
                pr = random.Random(p["pick"])
                if p["kind"] == "modify":
                    srcs = [s for s in case["dag"]["sources"] if any(s in t["ins"] for t in ts)]
                    if not srcs:
                        continue
                    f = pr.choice(sorted(srcs))
                    time.sleep(0.03)
                    with open(proj.path(f), "a") as fh:
                        fh.write("modified %d\n" % pi)
                    newm = os.stat(proj.path(f)).st_mtime
                    others = [m for q, m in scenario.disk_mtimes(scenario.all_paths(mts)).items() if m is not None and q != proj.path(f)]
                    if others and not newm > max(others):
                        raise Inconclusive("kernel clock did not give the modified source a strictly newer mtime")
                    seeds = {t["name"] for t in ts if f in t["ins"]}
                else:
                    outs = [(o, t["name"]) for t in ts for o in t["outs"] if os.path.exists(proj.path(o))]
                    if not outs:
                        continue
                    o, prod = pr.choice(sorted(outs))
                    os.remove(proj.path(o))
                    seeds = {prod}
                expect = (model.closure(seeds, inv) & c) | noout
                res.mon("perturbations")
                kinds.append(p["kind"])
                sizes.append(len(expect - noout))
                drain_ok.since = sim.seq()
                sub = gwf_run()
                if sub is None:
                    return res
                if sorted(sub) != sorted(expect):
                    res.violation(
                        "minimal-rerun",
                        "after %s the run submitted %s; expected exactly %s" % (p["kind"], sub, sorted(expect)),
                        sched=sched,
                        seeds=sorted(seeds),
                        deps={k: sorted(v) for k, v in deps.items()},
                    )
                    break
                bad, left = drain_ok(p["adv_seed"])
                if bad or left:
                    raise Inconclusive("jobs did not all succeed after perturbation: failed %s left %s" % (bad, left))
                if not check_converged("after %s #%d" % (p["kind"], pi)):
                    break
        if ok and pats and not res.violations:
            # the selection converged; now the whole workflow (new records must be stored next to the old ones)
            pats[:] = []
            c = set(names)
            noout = {n for n in c if not by[n]["outs"]}
            drain_ok.since = sim.seq()
            sub = gwf_run()
            if sub is not None:
                bad, left = drain_ok(case["adv_seed"] + 1)
                if bad or left:
                    raise Inconclusive("jobs did not all succeed in the full drain: failed %s left %s" % (bad, left))
                check_converged("full run after selection")
        res.obs("execution_orders", [list(o)[:40] for o in orders[:4]])
        res.count("distinct_orders_upper_bound", len(set(orders)))
        shared = any(len(v) >= 2 for v in inv.values()) or any(len(v) >= 2 for v in deps.values())
        res.sig = (gen.shape_class(deps), sched, kinds, sizes, case["hashing"], bool(pats))
        res.nontrivial = shared and any(0 < s < len([n for n in c if by[n]["outs"]]) for s in sizes)
    return res


def run_local(case):
    """the same property through the real worker pool: jobs are executed by `gwf workers`"""
    from .. import realpool

    res = Result()
    FINALS = ("COMPLETED", "FAILED", "CANCELLED", "KILLED")
    with gen.Project() as proj:
        ts = case["dag"]["targets"]
        variant = [{"name": t["name"], "ins_expr": repr(t["ins"]), "outs_expr": repr(t["outs"]), "spec": t["spec"], "route": "target"} for t in ts]
        proj.write_workflow(gen.render_workflow(variant))
        for f, tk in case["ticks"].items():
            if f in case.get("symlinks", ()) and tk is not None:
                proj.set_file(f, tk, symlink=True, link_tick=tk)
            else:
                proj.set_file(f, tk)
        mts = [dict(t, wd=proj.root) for t in ts]
        by = {t["name"]: t for t in mts}
        deps, _, _ = model.dependency_relation(mts)
        inv = model.invert(deps)
        names = set(deps)
        c = set(names)
        noout = {n for n in c if not by[n]["outs"]}
        extra = {"use_spec_hashes": True} if case["hashing"] else {}
        with realpool.Pool(proj, ncores=3, extra_cfg=extra) as pool:
            env = cli.env_for(None, ())

            def gwf_run():
                before = set(pool.states())
                r = cli.gwf(proj.root, ["run"], env, audit=False)
                if r.rc != 0:
                    res.violation("crash", "gwf -b local run failed", **cli.crash_witness(r))
                    return None
                tracked = proj.state_files().get("local-backend-tracked.json", {})
                new = set(pool.states()) - before
                return sorted(n for n, tid in tracked.items() if tid in new)

            def drain():
                ok = pool.wait_states(lambda st: all(v in FINALS for v in st.values()), timeout=90)
                res.mon("drains")
                st = pool.states()
                res.mon("jobs_executed", len(st))
                return ok, [t for t, v in st.items() if v != "COMPLETED"]

            def check_converged(label, failed_before):
                r = cli.gwf(proj.root, ["status"], env, audit=False)
                table = dict(cli.parse_status(r.out))
                res.mon("convergence_checked")
                notdone = sorted(n for n in c if by[n]["outs"] and table.get(n) != "completed")
                if notdone:
                    res.violation("not-converged", "%s (local pool): not completed after all jobs succeeded: %s" % (label, {n: table.get(n) for n in notdone}), table=table)
                    return False
                sub = gwf_run()
                if sub is None:
                    return False
                if sorted(sub) != sorted(noout):
                    res.violation("rerun-not-noop", "%s (local pool): re-run submitted %s; expected only %s" % (label, sub, sorted(noout)))
                    return False
                drain()
                return True

            sub = gwf_run()
            if sub is None:
                return res
            ok, bad = drain()
            if not ok or bad:
                raise Inconclusive("local pool: jobs did not all succeed: %s" % pool.states())
            good = check_converged("initial", set())
            kinds, sizes = [], []
            if good:
                for pi, p in enumerate(case["perturbs"][:2]):
                    pr = random.Random(p["pick"])
                    if p["kind"] == "modify":
                        srcs = [s_ for s_ in case["dag"]["sources"] if any(s_ in t["ins"] for t in ts)]
                        if not srcs:
                            continue
                        f = pr.choice(sorted(srcs))
                        time.sleep(0.03)
                        with open(proj.path(f), "a") as fh:
                            fh.write("modified %d\n" % pi)
                        seeds = {t["name"] for t in ts if f in t["ins"]}
                    else:
                        outs = [(o, t["name"]) for t in ts for o in t["outs"] if os.path.exists(proj.path(o))]
                        if not outs:
                            continue
                        o, prod = pr.choice(sorted(outs))
                        os.remove(proj.path(o))
                        seeds = {prod}
                    expect = model.closure(seeds, inv) | noout
                    res.mon("perturbations")
                    kinds.append(p["kind"])
                    sizes.append(len(expect - noout))
                    sub = gwf_run()
                    if sub is None:
                        return res
                    if sorted(sub) != sorted(expect):
                        res.violation("minimal-rerun", "local pool: after %s the run submitted %s; expected exactly %s" % (p["kind"], sub, sorted(expect)), seeds=sorted(seeds))
                        break
                    ok, bad = drain()
                    if not ok:
                        raise Inconclusive("local pool did not drain")
                    if not check_converged("after %s #%d" % (p["kind"], pi), set()):
                        break
        res.sig = (gen.shape_class(deps), "local", kinds, sizes, case["hashing"], False)
        res.nontrivial = any(0 < s_ < len([n for n in c if by[n]["outs"]]) for s_ in sizes)
    return res
