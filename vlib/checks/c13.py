"""C13 — local pool: every task reaches the final state matching what happened to it."""

import shutil
import tempfile

from .. import poolcase, vloop
from ..core import Result

ID = "C13"
LEVEL = "exploration"
TECHNIQUE = "runtime monitoring: real Scheduler on a virtual-time event loop; recorded state-transition history + sequential reference model; real-process lane with marker processes scanned in /proc"
RULE = (
    "as C11 plus start failures (process factory raises as for a missing working directory), log-write failures, cancel "
    "of finished tasks and repeated cancels. Observed: every assignment to the task-state table (RecordingDict), spawn "
    "count per task, fake-process liveness/kill calls, log files. Oracle: sequential model replaying the adversary's "
    "event log (completed iff ran and exited 0; failed on non-zero exit, start failure, time limit, failed dependency; "
    "cancelled when it or a dependency was cancelled while waiting or running); legal transitions only, no transition "
    "out of a final state, <= 1 spawn per task; bounded liveness: when the adversary is exhausted and no timer is pending "
    "every task is final and every coroutine done; stdout/stderr files equal the bytes the process wrote; killed "
    "processes received kill. Real-process lane: `gwf workers` with bash jobs that spawn marker children; 200 KB log "
    "streams; no marker process alive 2 s after cancel/time-out. Non-trivial: the run contains a cancel or time-out AND "
    "a non-zero exit or start failure. distinct = adversary event-order string."
)
ASSUMPTIONS = ["fake processes in the virtual lane", "when a cancel arrives while the time-limit kill sequence is still in progress either killed or cancelled is accepted"]


QUICK_BUDGET = {"cases": 6000, "deadline_s": 170, "case_timeout_s": 120, "floors": {"final_states": 13665, "transitions": 34658, "logs_checked": 4289, "real_tasks": 20}}
THOROUGH_FACTOR = 30  # thorough = the same workload with 30x the cases (floors scale along)


def budget(tier):
    from ..core import scaled_budget

    return scaled_budget(QUICK_BUDGET, tier, THOROUGH_FACTOR, noscale=('real_tasks',))


def gen_case(rng, idx, tier):
    if idx % 301 == 5:
        return {"lane": "real", "seed": rng.randrange(1 << 30), "cores": rng.choice([2, 3])}
    return poolcase.gen_pool_case(rng, faults=True)


def on_timeout(case, frames, timeout_s):
    return poolcase.on_timeout(case, frames, timeout_s)


def run_case(case):
    if case.get("lane") == "real":
        from .. import realpool_lanes

        return realpool_lanes.run_real_c13(case)
    res = Result()
    d = tempfile.mkdtemp(prefix="gwfv-pool-")
    try:
        h = vloop.run_harness(case, d)
        poolcase.eval_c13(h, res)
        res.sig = poolcase.event_string(h)
        res.obs("events", h.events[:60])
        res.obs("transitions", h.transitions[:40])
        res.obs("final_states", h.snapshots[-1]["states"] if h.snapshots else None)
        kinds = [e["kind"] for e in h.events]
        bad_exit = any(e["kind"] == "exit" and e["code"] != 0 for e in h.events) or any(r["failed_to_start"] for r in h.spawns)
        res.nontrivial = ("cancel" in kinds or "time" in kinds) and bad_exit
    finally:
        shutil.rmtree(d, ignore_errors=True)
    return res
