"""C05 — status, dry-run and run agree, and the two previews change nothing."""

import json
import os

from .. import cli, gen, model, scenario
from ..core import Result
from ..simcluster import CANCEL_CMD, SUBMIT_CMD, SimCluster

ID = "C05"
LEVEL = "exploration"
RULE = (
    "random DAGs (1-8 targets) with random file state and a backend state vector (in-flight, failed, cancelled, "
    "completed, unknown as far as the scheduler represents them) on simulated Slurm/SGE/LSF, spec hashing on/off with "
    "random records, planted stale log files, clean_logs on/off, foreign jobs. Per case: `gwf status` (rows compared "
    "with model.status_table), 3 random filter/format combinations (-s xN, --endpoints, patterns, -f "
    "default|summary) compared with the restriction of that table, `gwf run --dry-run S` ('Would submit' lines), `gwf "
    "run S` (submissions in the simulator journal). Around every preview: tree snapshot, audit-hook journal, simulator "
    "journal, semantic comparison of the state JSON. Non-trivial: >= 3 distinct statuses in the table and the selection's "
    "cone is a proper subset. distinct = (status multiset, filter classes, scheduler)."
)
ASSUMPTIONS = [
    "simulated schedulers stand in for Slurm/SGE/LSF",
    "an absent state file and one holding {} are semantically equal; rewriting a state file with identical JSON is allowed",
]


QUICK_BUDGET = {"cases": 480, "deadline_s": 170, "case_timeout_s": 90, "floors": {"status_rows": 758, "filtered_views": 502, "previews_snapshotted": 840, "run_compared": 168, "ghost_ids_tracked": 50}}
THOROUGH_FACTOR = 15  # thorough = the same workload with 15x the cases (floors scale along)


def budget(tier):
    from ..core import scaled_budget

    return scaled_budget(QUICK_BUDGET, tier, THOROUGH_FACTOR, noscale=())


def gen_case(rng, idx, tier):
    sched = rng.choices(["slurm", "sge", "lsf"], [6, 2, 2])[0]
    dag = gen.gen_dag(rng, max_targets=8, p_noout=0.08)
    ticks = {}
    for s in dag["sources"]:
        ticks[s] = rng.choice([0, 1, 2, 3])
    for t in dag["targets"]:
        mode = rng.choice(["allpresent", "allpresent", "random", "fresh"])
        for o in t["outs"]:
            ticks[o] = {"allpresent": rng.choice([0, 1, 2, 3]), "fresh": 3}.get(mode, rng.choice([None, 0, 1, 2, 3]))
        t["spec"] = "echo %s\n" % t["name"]
    names = [t["name"] for t in dag["targets"]]
    reps = scenario.REPRESENTABLE[sched]
    hashing = rng.random() < 0.4
    filters = []
    for _ in range(3):
        f = {
            "status": rng.sample(list(cli.STATUSES), rng.choice([0, 0, 1, 1, 2, 3])),
            "endpoints": rng.random() < 0.3,
            "patterns": scenario.gen_selection(rng, names) if rng.random() < 0.5 else [],
            "format": rng.choice(["default", "default", "summary"]),
        }
        filters.append(f)
    return {
        "sched": sched,
        "dag": dag,
        "ticks": ticks,
        "bstate": {n: rng.choice(reps) if rng.random() < 0.6 else "unknown" for n in names},
        "hashing": hashing,
        "records": {n: rng.choice(["same", "same", "diff", "never"]) for n in names},
        "patterns": scenario.gen_selection(rng, names),
        "filters": filters,
        "clean_logs": rng.choice([True, True, False]),
        "foreign": rng.randint(0, 2),
        "first_id": rng.choice([5, 1000]),
    }


ALLOWED_WRITE_SUFFIXES = ("-backend-tracked.json", "spec-hashes.json", "-backend-tracked.json.tmp", "spec-hashes.json.tmp")


def preview_guard(res, proj, sim, fn, what):
    """run fn() (a preview command) and assert it changed nothing"""
    before = gen.snapshot(proj.root)
    sbefore = proj.state_files()
    seq0 = sim.seq()
    r = fn()
    after = gen.snapshot(proj.root)
    safter = proj.state_files()
    res.mon("previews_snapshotted")
    d = gen.snap_diff(before, after)
    changed = []
    for k in ("added", "removed", "modified", "touched"):
        for p in d[k]:
            if p in (".gwf/", ".gwf/logs/"):
                continue
            if p.startswith(".gwf/") and p.endswith(ALLOWED_WRITE_SUFFIXES):
                continue
            changed.append((k, p))
    if changed:
        res.violation("preview-side-effect", "`%s` changed the project tree: %s" % (what, changed[:6]))
    for name in set(sbefore) | set(safter):
        a, b = sbefore.get(name, {}), safter.get(name, {})
        if (a or {}) != (b or {}):
            res.violation("preview-state-change", "`%s` changed %s: %s -> %s" % (what, name, a, b))
    muts = sim.commands(seq0, set(SUBMIT_CMD.values()) | set(CANCEL_CMD.values()))
    if muts:
        res.violation("preview-side-effect", "`%s` issued scheduler commands %s" % (what, [m["cmd"] for m in muts]))
    for e in r.audit:
        if e["ev"] == "open":
            p = e["path"]
            if p.startswith(proj.root) and not p.endswith(ALLOWED_WRITE_SUFFIXES):
                res.violation("preview-side-effect", "`%s` opened %s for writing" % (what, p))
        elif e["ev"] == "os.rename":
            a = e.get("args") or []
            if not (len(a) >= 2 and str(a[0]).endswith(ALLOWED_WRITE_SUFFIXES) and str(a[1]).endswith(ALLOWED_WRITE_SUFFIXES)):
                res.violation("preview-side-effect", "`%s` renamed %s" % (what, a))
        elif e["ev"] in ("os.remove", "os.utime", "os.rmdir", "shutil.rmtree", "os.truncate"):
            res.violation("preview-side-effect", "`%s` performed %s %s" % (what, e["ev"], e.get("args")))
    return r


def run_case(case):
    res = Result()
    sched = case["sched"]
    with gen.Project() as proj:
        ts = case["dag"]["targets"]
        variant = [{"name": t["name"], "ins_expr": repr(t["ins"]), "outs_expr": repr(t["outs"]), "spec": t["spec"], "route": "target"} for t in ts]
        proj.write_workflow(gen.render_workflow(variant))
        cfg = {"backend": sched, "clean_logs": case["clean_logs"]}
        if case["hashing"]:
            cfg["use_spec_hashes"] = True
        proj.write_config(cfg)
        for f, tk in case["ticks"].items():
            proj.set_file(f, tk)
        mts = [dict(t, wd=proj.root) for t in ts]
        deps, _, _ = model.dependency_relation(mts)
        names = sorted(deps)
        sim = SimCluster(proj.simdir, sched, first_id=case["first_id"])
        tracked = {}
        for i in range(case["foreign"]):
            sim.add_job("t%d" % i, phase=["running", "pending"][i % 2], user="other", sched=sched)
        for n, s in case["bstate"].items():
            jid = scenario.place_state(sim, sched, n, s)
            if jid is not None:
                tracked[n] = jid
        # some targets are tracked with an id the scheduler has no record of right now (accounting lag, purged job):
        # they look unknown, and a preview must leave those ids where they are
        import random as _random

        gr = _random.Random(case["first_id"] * 31 + len(ts))
        for n, s in sorted(case["bstate"].items()):
            if s == "unknown" and gr.random() < 0.3:
                tracked[n] = str(880000 + gr.randrange(1000))
                res.mon("ghost_ids_tracked")
        os.makedirs(os.path.join(proj.root, ".gwf", "logs"), exist_ok=True)
        if tracked:
            proj.write_state(scenario.tracked_file(sched), tracked)
        recs = {}
        for t in ts:
            r_ = case["records"][t["name"]]
            if r_ == "same":
                recs[t["name"]] = model.sha1(t["spec"])
            elif r_ == "diff":
                recs[t["name"]] = "0" * 40
        if recs:
            proj.write_state("spec-hashes.json", recs)
        for ln in ("gone.stdout", "gone.stderr", "other_old.stdout", names[0] + ".stdout"):
            with open(os.path.join(proj.root, ".gwf", "logs", ln), "w") as f:
                f.write("log %s\n" % ln)
        env = cli.env_for(proj.simdir, (sched,))

        bview = scenario.backend_view(sim, tracked, sched)
        mtime = scenario.disk_mtimes(scenario.all_paths(mts))
        hrec = recs if case["hashing"] else None
        st = model.status_table(mts, deps, bview, mtime, case["hashing"], hrec or {})
        ends = model.endpoints(deps)

        # (1) unfiltered status
        r = preview_guard(res, proj, sim, lambda: cli.gwf(proj.root, ["status"], env), "gwf status")
        if r.rc != 0:
            res.violation("crash", "gwf status failed", **cli.crash_witness(r))
            return res
        rows = cli.parse_status(r.out)
        table = dict(rows)
        res.obs("status_table", table)
        res.obs("oracle", st)
        for n in names:
            res.mon("status_rows")
            if table.get(n) != st[n]:
                res.violation("status-mismatch", "gwf status shows %s=%s, oracle %s" % (n, table.get(n), st[n]), backend=bview, table=table, oracle=st)
        if len(rows) != len(names):
            res.violation("status-mismatch", "status printed %d rows for %d targets" % (len(rows), len(names)))

        # (4) filtered views
        fclasses = []
        for f in case["filters"]:
            args = ["status"]
            for s in f["status"]:
                args += ["-s", s]
            if f["endpoints"]:
                args.append("--endpoints")
            args += ["-f", f["format"]] + list(f["patterns"])
            r = preview_guard(res, proj, sim, lambda: cli.gwf(proj.root, args, env), "gwf " + " ".join(args))
            want = {n: table[n] for n in names if n in table}
            if f["status"]:
                want = {n: s for n, s in want.items() if s in f["status"]}
            sel = scenario.select(set(names), f["patterns"])
            if sel is not None:
                want = {n: s for n, s in want.items() if n in sel}
            if f["endpoints"]:
                want = {n: s for n, s in want.items() if n in ends}
            fclasses.append((len(f["status"]), f["endpoints"], bool(f["patterns"]), f["format"], len(want) == 0))
            res.mon("filtered_views")
            if r.rc != 0:
                mech = "summary-empty-table" if (f["format"] == "summary" and not want and r.exc_type == "IndexError") else "crash"
                res.violation(mech, "`gwf %s` failed" % " ".join(args), **cli.crash_witness(r))
                continue
            if f["format"] == "default":
                got = dict(cli.parse_status(r.out))
                if got != want:
                    res.violation("filter-mismatch", "`gwf %s` shows %s; the restriction of the status table is %s" % (" ".join(args), got, want))
            else:
                got = cli.parse_summary(r.out)
                wantc = {s: sum(1 for v in want.values() if v == s) for s in cli.STATUSES}
                if got != wantc:
                    res.violation("filter-mismatch", "`gwf %s` summary %s; expected counts %s" % (" ".join(args), got, wantc))

        # (2) dry run, (3) run
        pats = case["patterns"]
        sel = scenario.select(set(names), pats)
        selected = ends if sel is None else sel
        c = model.cone(selected, deps)
        from_status = sorted(n for n in c if table.get(n) in ("shouldrun", "failed", "cancelled"))
        r = preview_guard(res, proj, sim, lambda: cli.gwf(proj.root, ["run", "--dry-run"] + pats, env), "gwf run --dry-run")
        if r.rc != 0:
            res.violation("crash", "gwf run --dry-run failed", **cli.crash_witness(r))
        else:
            dry = sorted(cli.would_submit(r.err + r.out))
            res.obs("dry_run_would_submit", dry)
            res.mon("dryrun_compared")
            if dry != from_status:
                res.violation("dryrun-mismatch", "dry-run would submit %s; status table says %s" % (dry, from_status), patterns=pats, table=table)
        logs_before = set(os.listdir(os.path.join(proj.root, ".gwf", "logs")))
        seq0 = sim.seq()
        r = cli.gwf(proj.root, ["run"] + pats, env)
        if r.rc != 0:
            res.violation("crash", "gwf run failed", **cli.crash_witness(r))
        else:
            jobs = sim.jobs()
            ran = sorted(jobs[s["job"]]["name"] for s in sim.submissions(seq0))
            res.obs("run_submitted", ran)
            res.mon("run_compared")
            if ran != from_status:
                res.violation("run-mismatch", "run submitted %s; status table says %s" % (ran, from_status), patterns=pats, table=table)
            inflight = [n for n in ran if table.get(n) in ("submitted", "running", "completed")]
            if inflight:
                res.violation("run-mismatch", "targets shown submitted/running/completed were submitted: %s" % inflight)
        res.sig = (sorted(st.values()), sorted(map(str, fclasses)), sched)
        res.nontrivial = len(set(st.values())) >= 3 and len(c) < len(names)
    return res
