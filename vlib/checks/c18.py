"""C18 — spec hashes are recorded exactly on accepted submission, touch and clean."""

import json
import os
import random

from .. import cli, gen, model, scenario
from ..core import Result
from ..simcluster import SUBMIT_CMD, SimCluster

ID = "C18"
LEVEL = "exploration"
RULE = (
    "random command histories (6-14 steps) over a project of 2-6 targets on simulated Slurm: run (optionally with the k-th "
    "sbatch rejected by a fault plan), run --dry-run, status, touch [selection], clean [selection] (-f/--all), spec edit, "
    "enable/disable hashing, rename target, remove target, starting with no hash file; between steps the adversary drains "
    "all jobs successfully (outputs really created). After EVERY step the spec-hashes file is compared with a model store "
    "name -> sha1(spec): set on accepted submission (truth = simulator journal) and on touch while enabled, erased on clean "
    "of that target, unchanged by status / dry-run / rejected submissions / anything while disabled. After every step `gwf "
    "status` is compared with model.status_table using that store (edited or never-recorded target and its downstream "
    "closure re-run and nothing else; hashing off: an edit changes nothing). Non-trivial: the history has an enable/disable "
    "flip, an edit and two different record-changing commands. distinct = the command-kind string."
)
ASSUMPTIONS = ["simulated Slurm; all jobs succeed between steps", "an absent hash file equals an empty store"]

KINDS = ["run", "run", "run_fault", "dry", "status", "touch", "clean", "edit", "edit", "toggle", "rename", "remove"]


QUICK_BUDGET = {"cases": 160, "deadline_s": 170, "case_timeout_s": 150, "floors": {"steps": 565, "store_comparisons": 844, "status_comparisons": 565, "record_changes": 68, "config_cli_switches": 25}}
THOROUGH_FACTOR = 12  # thorough = the same workload with 12x the cases (floors scale along)


def budget(tier):
    from ..core import scaled_budget

    return scaled_budget(QUICK_BUDGET, tier, THOROUGH_FACTOR, noscale=(), case_timeout_s=300)


def gen_case(rng, idx, tier):
    dag = gen.gen_dag(rng, n_targets=rng.randint(2, 6), p_noout=0.08, shapes=rng.choice(["chain", "diamond", "random", "fan"]))
    for t in dag["targets"]:
        t["protect_all"] = rng.random() < 0.25  # cleaning such a target deletes nothing but still forgets its record
    steps = []
    for _ in range(rng.randint(6, 14)):
        k = rng.choice(KINDS)
        steps.append({"kind": k, "r": rng.randrange(1 << 30)})
    return {"dag": dag, "steps": steps, "start_enabled": rng.random() < 0.75, "seed": rng.randrange(1 << 30)}


def run_case(case):
    res = Result()
    with gen.Project() as proj:
        root = proj.root
        ts = [dict(t) for t in case["dag"]["targets"]]
        for t in ts:
            t["spec"] = "echo %s v0\n" % t["name"]
            t["ver"] = 0
        for s in case["dag"]["sources"]:
            proj.set_file(s, 0)
        enabled = case["start_enabled"]
        store = {}
        sim = SimCluster(proj.simdir, "slurm")
        env = cli.env_for(proj.simdir, ("slurm",))
        kinds = []
        changes = set()

        def write_all():
            variant = [{"name": t["name"], "ins_expr": repr(t["ins"]), "outs_expr": repr(t["outs"]), "spec": t["spec"], "route": "target", "protect_expr": repr(t["outs"]) if t.get("protect_all") and t["outs"] else None} for t in ts]
            proj.write_workflow(gen.render_workflow(variant))
            if via_cli:
                return
            cfg = {"backend": "slurm"}
            if enabled:
                cfg["use_spec_hashes"] = True
            proj.write_config(cfg)

        # in a third of the histories the switch is operated the way a user does it: `gwf config set/unset`
        via_cli = case["seed"] % 3 == 0
        cfg_rng = random.Random(case["seed"] + 5)

        def switch(on):
            if not via_cli:
                return
            if on:
                args = ["config", "set", "use_spec_hashes", cfg_rng.choice(["yes", "true", "1"])]
            elif cfg_rng.random() < 0.25:
                args = ["config", "unset", "use_spec_hashes"]
            else:
                args = ["config", "set", "use_spec_hashes", cfg_rng.choice(["no", "false", "0"])]
            r = cli.gwf(root, args, env)
            res.mon("config_cli_switches")
            kinds.append("c")
            if r.rc != 0:
                res.violation("crash", "gwf %s failed" % " ".join(args), **cli.crash_witness(r))

        if via_cli:
            proj.write_config({"backend": "slurm"})
            write_all()  # the workflow file has to exist before `gwf config` can be used
            switch(enabled)

        def mview():
            mts = [dict(t, wd=root) for t in ts]
            deps, _, _ = model.dependency_relation(mts)
            return mts, deps

        def tracked():
            return proj.state_files().get("slurm-backend-tracked.json", {}) or {}

        def drain():
            mts, deps = mview()
            by = {t["name"]: t for t in mts}
            rng = random.Random(case["seed"])
            for _ in range(200):
                run_, act = sorted(sim.runnable()), sorted(sim.running())
                ch = [("s", i) for i in run_] + [("f", i) for i in act]
                if not ch:
                    break
                k, jid = rng.choice(ch)
                if k == "s":
                    sim.start(jid)
                else:
                    nm = sim.jobs()[jid]["name"]
                    if nm in by:
                        scenario.create_outputs(by[nm])
                    sim.finish(jid, 0)
            for jid in sim.pending():  # dependents of rejected submissions etc.
                sim.cancel(jid)

        def compare(label):
            res.mon("store_comparisons")
            got = proj.state_files().get("spec-hashes.json", {})
            if got == "<<unparsable>>" or (got or {}) != store:
                res.violation("store-mismatch", "%s: spec-hashes file %s; model store %s" % (label, got, store), kinds=kinds, enabled=enabled)
                return False
            return True

        def check_status(label):
            mts, deps = mview()
            bview = scenario.backend_view(sim, tracked(), "slurm")
            mtime = scenario.disk_mtimes(scenario.all_paths(mts))
            st = model.status_table(mts, deps, bview, mtime, enabled, store)
            r = cli.gwf(root, ["status"], env)
            res.mon("status_comparisons")
            if r.rc != 0:
                res.violation("crash", "%s: gwf status failed" % label, **cli.crash_witness(r), kinds=kinds)
                return False
            table = dict(cli.parse_status(r.out))
            if table != st:
                res.violation("staleness-mismatch", "%s: gwf status %s; model (hashing %s, store %s) says %s" % (label, table, enabled, sorted(store), st), kinds=kinds)
                return False
            return True

        write_all()
        ok = True
        for si, step in enumerate(case["steps"]):
            if not ok:
                break
            r_ = random.Random(step["r"])
            k = step["kind"]
            names = [t["name"] for t in ts]
            mts, deps = mview()
            label = "step %d (%s)" % (si, k)
            if k in ("run", "run_fault"):
                if k == "run_fault":
                    sim.set_faults([{"cmd": "sbatch", "nth": r_.randint(1, 3), "kind": r_.choice(["exit1", "stderr_error"])}])
                seq0 = sim.seq()
                pats = scenario.gen_selection(r_, names) if r_.random() < 0.4 else []
                r = cli.gwf(root, ["run"] + pats, env)
                sim.set_faults([])
                if r.crashed:
                    res.violation("crash", "%s crashed" % label, **cli.crash_witness(r), kinds=kinds)
                    break
                jobs = sim.jobs()
                by = {t["name"]: t for t in ts}
                for s in sim.submissions(seq0):
                    nm = jobs[s["job"]]["name"]
                    if enabled and nm in by:
                        store[nm] = model.sha1(by[nm]["spec"])
                        changes.add("submit")
                kinds.append("R" if k == "run" else "F")
                ok = compare(label)
                drain()
            elif k == "dry":
                r = cli.gwf(root, ["run", "--dry-run"], env)
                kinds.append("d")
                ok = compare(label)
            elif k == "status":
                kinds.append("s")
            elif k == "touch":
                pats = scenario.gen_selection(r_, names) if r_.random() < 0.5 else []
                r = cli.gwf(root, ["touch"] + pats, env)
                if r.rc != 0:
                    res.violation("crash", "%s failed" % label, **cli.crash_witness(r), kinds=kinds)
                    break
                sel = scenario.select(set(names), pats)
                selected = model.endpoints(deps) if sel is None else sel
                if enabled:
                    by = {t["name"]: t for t in ts}
                    for n in model.cone(selected, deps):
                        store[n] = model.sha1(by[n]["spec"])
                        changes.add("touch")
                kinds.append("t")
                ok = compare(label)
            elif k == "clean":
                pats = scenario.gen_selection(r_, names) if r_.random() < 0.5 else []
                allf = r_.random() < 0.5
                r = cli.gwf(root, ["clean", "-f"] + (["--all"] if allf else []) + pats, env)
                if r.rc != 0:
                    res.violation("crash", "%s failed" % label, **cli.crash_witness(r), kinds=kinds)
                    break
                sel = scenario.select(set(names), pats)
                selected = set(names) if sel is None else set(sel)
                if not allf:
                    selected -= model.endpoints(deps)
                if enabled:
                    for n in selected:
                        if n in store:
                            changes.add("clean")
                        store.pop(n, None)
                kinds.append("c")
                ok = compare(label)
            elif k == "edit":
                t = r_.choice(ts)
                t["ver"] += 1
                t["spec"] = "echo %s v%d\n" % (t["name"], t["ver"])
                write_all()
                kinds.append("e")
            elif k == "toggle":
                enabled = not enabled
                write_all()
                switch(enabled)
                kinds.append("T" if enabled else "D")
            elif k == "rename":
                # rename a target that nobody depends on by name (dependencies go through files, so any target)
                t = r_.choice(ts)
                t["name"] = t["name"] + "r"
                write_all()
                kinds.append("n")
            elif k == "remove":
                ends = model.endpoints(deps)
                cand = [t for t in ts if t["name"] in ends]
                if len(ts) > 1 and cand:
                    t = r_.choice(cand)
                    ts.remove(t)
                    write_all()
                kinds.append("x")
            res.mon("steps")
            if ok:
                ok = check_status(label)
                if ok:
                    ok = compare(label + " +status")
        res.obs("history", {"kinds": "".join(kinds), "final_store": store, "hashing_enabled_at_end": enabled})
        res.mon("record_changes", len(changes))
        ks = "".join(kinds)
        res.sig = ks
        res.nontrivial = ("T" in ks or "D" in ks) and "e" in ks and len(changes) >= 2
    return res
