"""C03 — dependency graph is exactly the relation induced by shared file paths."""

import json
import os
import random

from .. import cli, gen, model
from ..core import Result

ID = "C03"
LEVEL = "exploration"
RULE = (
    "2-9 targets over a pool of 3-10 files placed in nested/sibling directories (several files share a basename); "
    "each target has its own working directory (root, sub, sub/deep, other; given at construction or assigned afterwards), "
    "file names include an NFC/NFD pair that are two distinct files, and every path occurrence gets a random "
    "spelling (relative, './x', 'd/../x', 'a//b', absolute, absolute with '.', '..', '//' segments, pathlib.Path) and "
    "container shape; each case is built in 3 definition orders. Observed: Graph.from_targets "
    "dependencies/dependents/provides/unresolved/endpoints (lib lane) and `gwf info` JSON and `gwf info --format pretty` (Dependents blocks) through the real CLI (cli "
    "lane). Oracle: own string resolver + set intersection. Non-trivial: at least one edge realised through two "
    "different spellings of one file AND two distinct files with a common basename present. distinct = (edge count, "
    "sorted spelling-class pairs on edges)."
)
ASSUMPTIONS = ["no trailing-slash spellings, no symlinks, no '//' at the very start of a path"]

WDS = ["", "sub", "sub/deep", "other"]


QUICK_BUDGET = {"cases": 8000, "deadline_s": 170, "case_timeout_s": 60, "floors": {"lib_graphs": 7558, "cli_info": 280, "cli_info_pretty": 280, "edges_checked": 40000, "cli_from_subdir": 20, "cli_through_symlink": 70}}
THOROUGH_FACTOR = 20  # thorough = the same workload with 20x the cases (floors scale along)


def budget(tier):
    from ..core import scaled_budget

    return scaled_budget(QUICK_BUDGET, tier, THOROUGH_FACTOR, noscale=())


def relpath(frm, to):
    """project-relative dirs/files -> spelling of `to` relative to dir `frm` (own algorithm)"""
    a = [s for s in frm.split("/") if s]
    b = [s for s in to.split("/") if s]
    i = 0
    while i < len(a) and i < len(b) - 1 and a[i] == b[i]:
        i += 1
    return "/".join([".."] * (len(a) - i) + b[i:])


SPELL_KINDS = ["rel", "dot", "updown", "dslash", "abs", "absdot", "absup", "absdslash", "pathrel", "pathabs"]


def spell(rng, kind, wd_rel, file_rel):
    """returns (spelling, is_path_object).  Absolute parts use the placeholder @ROOT@."""
    rel = relpath(wd_rel, file_rel)
    ab = "@ROOT@/" + file_rel
    if kind == "rel":
        return rel, False
    if kind == "dot":
        return "./" + rel, False
    if kind == "updown":
        return "zz/../" + rel, False
    if kind == "dslash":
        return (rel.replace("/", "//", 1) if "/" in rel else ".//" + rel), False
    if kind == "abs":
        return ab, False
    if kind == "absdot":
        return "@ROOT@/./" + file_rel, False
    if kind == "absup":
        return "@ROOT@/qq/../" + file_rel, False
    if kind == "absdslash":
        return "@ROOT@//" + file_rel, False
    if kind == "pathrel":
        return rel, True
    if kind == "pathabs":
        return ab, True
    raise ValueError(kind)


def gen_case(rng, idx, tier):
    lane = "cli" if idx % 10 == 0 else "lib"
    nfiles = rng.randint(3, 10)
    dirs = ["", "sub", "sub/deep", "other", "data"]
    bases = ["x.txt", "y.txt", "z.dat", "w.dat", "caf\u00e9.txt", "cafe\u0301.txt"]  # the last two are distinct files
    files = []
    while len(files) < nfiles:
        f = (rng.choice(dirs) + "/" + rng.choice(bases)).lstrip("/")
        if f not in files:
            files.append(f)
    n = rng.randint(2, 9)
    # acyclic, single producer per file by construction: file k may be produced by at most one target,
    # target i consumes only sources or files produced by lower-numbered targets
    producer = {}
    targets = []
    avail = list(files)
    rng.shuffle(avail)
    weights = [4, 2, 2, 1, 3, 2, 2, 1, 1, 1]
    for i in range(n):
        wd = rng.choice(WDS)
        outs = []
        for _ in range(rng.randint(0, 2)):
            if avail:
                f = avail.pop()
                producer[f] = i
                outs.append(f)
        cands = [f for f in files if f not in outs and (f not in producer or producer[f] < i)]
        cands = [f for f in cands if f in producer or f not in avail or True]
        ins = rng.sample(cands, min(len(cands), rng.randint(0, 3)))
        t = {"name": "t%d" % i, "wd_rel": wd, "ins": [], "outs": [], "reassign": rng.random() < 0.25, "relwd": rng.random() < 0.2}
        for f in ins:
            k = rng.choices(SPELL_KINDS, weights)[0]
            s, isp = spell(rng, k, wd, f)
            t["ins"].append({"file": f, "kind": k, "s": s, "path": isp})
        for f in outs:
            k = rng.choices(SPELL_KINDS, weights)[0]
            s, isp = spell(rng, k, wd, f)
            t["outs"].append({"file": f, "kind": k, "s": s, "path": isp})
        targets.append(t)
    # files consumed but later produced by a higher-numbered target would create a forward edge: allowed
    # only if it cannot make a cycle -> we filtered with producer[f] < i at generation time, but files taken
    # from `avail` later become produced by j > i: i consumes f, j produces f => i depends on j (j > i).
    # j's inputs only come from producers < j or sources, which may include i's outputs => possible cycle.
    # Remove such forward consumptions to keep the workload valid for this property.
    for i, t in enumerate(targets):
        t["ins"] = [x for x in t["ins"] if x["file"] not in producer or producer[x["file"]] < i]
    orders = [list(range(n))]
    for _ in range(2):
        o = list(range(n))
        rng.shuffle(o)
        orders.append(o)
    return {"lane": lane, "targets": targets, "files": files, "orders": orders, "shape_seed": rng.randrange(1 << 30)}


def concrete(case, root):
    """-> model targets (spellings with the real root) + rendering info"""
    out = []
    for t in case["targets"]:
        wd = root + ("/" + t["wd_rel"] if t["wd_rel"] else "")
        out.append(
            {
                "name": t["name"],
                "wd": wd,
                "wd_rel": t["wd_rel"],
                "reassign": t.get("reassign", False),
                # a working directory may itself be given relative to the process's directory (the project root)
                "wd_spelled": ("./" + t["wd_rel"] if t["wd_rel"] else ".") if t.get("relwd") else None,
                "ins": [x["s"].replace("@ROOT@", root) for x in t["ins"]],
                "outs": [x["s"].replace("@ROOT@", root) for x in t["outs"]],
                "ins_l": [gen.leaf_expr(x["s"].replace("@ROOT@", root), x["path"]) for x in t["ins"]],
                "outs_l": [gen.leaf_expr(x["s"].replace("@ROOT@", root), x["path"]) for x in t["outs"]],
                "spec": "",
            }
        )
    return out


def render(ts, seed):
    r = random.Random(seed)
    v = []
    for t in ts:
        v.append(dict(t, ins_expr=gen.shape_expr(r, t["ins_l"]), outs_expr=gen.shape_expr(r, t["outs_l"])))
    return v


def mech_for(case):
    kinds = {x["kind"] for t in case["targets"] for x in t["ins"] + t["outs"]}
    if kinds & {"pathrel", "pathabs"}:
        # Path objects: decided by C19's defect (TypeError in the path validator) before the graph is built
        return "path-object"
    if kinds & {"absdot", "absup", "absdslash"}:
        return "abs-path-unnormalised"
    return "graph-mismatch"


def run_case(case):
    res = Result()
    with gen.Project() as proj:
        root = proj.root
        ts = concrete(case, root)
        deps, producers, unresolved = model.dependency_relation(ts)
        inv = model.invert(deps)
        ends = model.endpoints(deps)
        for d in WDS:
            os.makedirs(os.path.join(root, d), exist_ok=True)
        for p in unresolved:
            os.makedirs(os.path.dirname(p), exist_ok=True)
            with open(p, "w") as f:
                f.write("src\n")
        # signature / non-triviality
        pairs = set()
        bykey = {}
        for t in case["targets"]:
            for x in t["outs"]:
                bykey[x["file"]] = x["kind"]
        for t in case["targets"]:
            for x in t["ins"]:
                if x["file"] in bykey:
                    pairs.add(tuple(sorted((x["kind"], bykey[x["file"]]))))
        diffspell = any(a != b for a, b in pairs)
        used = {x["file"] for t in case["targets"] for x in t["ins"] + t["outs"]}
        basenames = [f.rsplit("/", 1)[-1] for f in used]
        common = len(basenames) != len(set(basenames))
        nedges = sum(len(v) for v in deps.values())
        res.sig = (nedges, sorted(pairs))
        res.nontrivial = bool(diffspell and common and nedges)
        variant = render(ts, case["shape_seed"])
        if case["lane"] == "lib":
            run_lib(case, root, variant, deps, inv, ends, producers, unresolved, res)
        else:
            run_cli(case, proj, variant, deps, inv, res)
    return res


def run_lib(case, root, variant, deps, inv, ends, producers, unresolved, res):
    from .. import inproc

    here = os.getcwd()
    try:
        _run_lib(case, root, variant, deps, inv, ends, producers, unresolved, res, inproc)
    finally:
        os.chdir(here)


def _run_lib(case, root, variant, deps, inv, ends, producers, unresolved, res, inproc):
    os.chdir(root)  # relative working directories are relative to the directory gwf runs in
    for order in case["orders"]:
        vt = [variant[i] for i in order]
        try:
            wf = inproc.build_workflow(root, vt)
            g = inproc.graph_of(wf)
        except Exception as e:
            res.violation(mech_for(case), "valid workflow rejected / crashed: %r" % (e,), order=order, targets=[(t["name"], t["wd"], t["ins_expr"], t["outs_expr"]) for t in vt])
            continue
        res.mon("lib_graphs")
        res.obs("order%s" % "".join(map(str, order)), {"targets": [(t["name"], t["wd_rel"], t["ins_expr"], t["outs_expr"]) for t in vt], "gwf_dependencies": {k.name: sorted(d.name for d in v) for k, v in g.dependencies.items() if v}})
        ge = {t.name for t in g.endpoints()}
        gd = {t.name: {d.name for d in g.dependencies.get(t, ())} for t in g.targets.values()}
        gi = {t.name: {d.name for d in g.dependents.get(t, ())} for t in g.targets.values()}
        gp = {}
        for k, v in g.provides.items():
            gp.setdefault(model.resolve("/", k), []).append(v.name)
        gu = {model.resolve("/", k) for k in g.unresolved}
        res.mon("edges_checked", sum(len(v) for v in deps.values()) + len(deps))
        probs = []
        if gd != deps:
            probs.append("dependencies differ: gwf=%s oracle=%s" % (fmt(gd), fmt(deps)))
        if gi != inv:
            probs.append("dependents is not the inverse: gwf=%s oracle=%s" % (fmt(gi), fmt(inv)))
        if ge != ends:
            probs.append("endpoints differ: gwf=%s oracle=%s" % (sorted(ge), sorted(ends)))
        if gp != {k: v for k, v in producers.items()}:
            probs.append("provides differs: gwf=%s oracle=%s" % (gp, producers))
        if len(g.provides) != len(producers):
            probs.append("provides has %d keys for %d distinct output files" % (len(g.provides), len(producers)))
        if gu != unresolved:
            probs.append("unresolved differs: gwf=%s oracle=%s" % (sorted(gu), sorted(unresolved)))
        for p in probs:
            res.violation(mech_for(case), p, order=order, targets=[(t["name"], t["wd"], t["ins_expr"], t["outs_expr"]) for t in vt])


def fmt(d):
    return {k: sorted(v) for k, v in sorted(d.items()) if v}


def run_cli(case, proj, variant, deps, inv, res):
    tl = []
    for t in variant:
        if t["wd_rel"] and t.get("reassign"):
            # created with the workflow's directory, then moved: the graph must use the directory the
            # target has when the graph is built
            tl.append(dict(t, route="raw", raw="_t = gwf.target(%r, inputs=%s, outputs=%s)\n_t.working_dir = %r" % (t["name"], t["ins_expr"], t["outs_expr"], t.get("wd_spelled") or t["wd"])))
        elif t["wd_rel"]:
            tl.append(dict(t, route="template", wd_arg=t.get("wd_spelled") or t["wd"]))
        elif (len(t["name"]) + len(variant) + len(t["ins_expr"])) % 3 == 0:
            tl.append(dict(t, route="template"))  # a template without a working directory of its own inherits the workflow's
        else:
            tl.append(dict(t, route="target"))
    proj.write_workflow(gen.render_workflow(tl))
    proj.write_config({"backend": "slurm"})
    env = cli.env_for(proj.simdir, ("slurm",))
    # where gwf is started from: the project root, a nested sub-directory (only when no target carries a working
    # directory that is relative to the process directory), or the project root reached through a symbolic link
    # with the shell's logical $PWD
    how = case["shape_seed"] % 4
    start, extra_env = proj.root, {}
    if how in (1, 3) and not any(t.get("wd_spelled") for t in variant):
        start = os.path.join(proj.root, "started", "deeper")
        os.makedirs(start, exist_ok=True)
        res.mon("cli_from_subdir")
    elif how == 2:
        link = os.path.join(proj.base, "link-to-proj")
        os.symlink(proj.root, link)
        start, extra_env = link, {"PWD": link}
        res.mon("cli_through_symlink")
    env.update(extra_env)
    proj_root_for_cli = start
    r = cli.gwf(proj_root_for_cli, ["info"], env)
    if r.rc != 0:
        res.violation(mech_for(case), "gwf info failed on a valid workflow", **cli.crash_witness(r), workflow=gen.render_workflow(tl))
        return
    try:
        info = json.loads(r.out)
    except ValueError:
        res.violation("info-not-json", "gwf info did not print JSON", out=r.out[:500])
        return
    res.mon("cli_info")
    gd = {k: set(v["dependencies"]) for k, v in info.items()}
    gi = {k: set(v["dependents"]) for k, v in info.items()}
    if gd != deps or gi != inv:
        res.violation(mech_for(case), "gwf info relations differ: deps gwf=%s oracle=%s; dependents gwf=%s oracle=%s" % (fmt(gd), fmt(deps), fmt(gi), fmt(inv)), workflow=gen.render_workflow(tl))
    # selection: `gwf info <name>` must restrict to that target with the same relations
    name = sorted(deps)[0]
    r2 = cli.gwf(proj_root_for_cli, ["info", name], env)
    if r2.rc == 0:
        try:
            i2 = json.loads(r2.out)
            if set(i2) != {name} or set(i2[name]["dependencies"]) != deps[name] or set(i2[name]["dependents"]) != inv[name]:
                res.violation("graph-mismatch", "gwf info %s differs from full info" % name, got=i2)
        except ValueError:
            res.violation("info-not-json", "gwf info NAME did not print JSON", out=r2.out[:500])
    else:
        res.violation(mech_for(case), "gwf info NAME failed", **cli.crash_witness(r2))
    # the human-readable format prints the dependents of every target: same relation
    r3 = cli.gwf(proj_root_for_cli, ["info", "--format", "pretty"], env)
    res.mon("cli_info_pretty")
    if r3.rc != 0:
        res.violation("info-pretty-fails" if mech_for(case) == "graph-mismatch" else mech_for(case), "gwf info --format pretty failed on a valid workflow", **cli.crash_witness(r3), workflow=gen.render_workflow(tl))
        return
    blocks, cur, field = {}, None, None
    for ln in r3.out.splitlines():
        if ln in ("Name:", "Inputs:", "Outputs:", "Dependents:", "Spec:"):
            field = ln[:-1]
            continue
        if ln.startswith("    ") and field:
            v = ln[4:]
            if field == "Name":
                cur = v
                blocks[cur] = []
            elif field == "Dependents" and cur is not None and v != "-":
                blocks[cur].append(v)
    gp = {k: set(v) for k, v in blocks.items()}
    if gp != inv:
        res.violation(mech_for(case), "gwf info --format pretty: dependents %s; oracle %s" % (fmt(gp), fmt(inv)), out=r3.out[:800])
