"""C15 — clean deletes only unprotected declared outputs of the selected targets."""

import os

from .. import cli, gen, model, scenario
from ..core import Result

ID = "C15"
LEVEL = "exploration"
RULE = (
    "random DAGs (1-8 targets) with a random subset of outputs, sources, logs, state files and unrelated files existing "
    "(files that are output of one target and input of another included); per-target protect sets spelled differently "
    "from the outputs (relative, './x', 'd/../x', absolute, absolute with '/./'), sometimes naming ANOTHER target's "
    "output; every combination of --all, --force, name patterns and prompt answer (y / n / EOF on stdin); spec hashing "
    "on/off with a record for every target. Observed: tree snapshot before/after (content hashes), audit-hook journal "
    "(os.remove events), spec-hashes file, exit code. Oracle: selected = name-filtered targets minus endpoints unless "
    "--all; removable = existing declared outputs of selected targets not in THAT target's resolved protect set; removed "
    "== removable exactly, everything else byte-identical, records of exactly the selected targets erased (hashing on); "
    "declined prompt => nothing changes and no os.remove event; in 15% of the cases one existing declared output is a "
    "DIRECTORY (os.remove fails on it): it stays, the command still exits 0 and removes every other removable file. Non-trivial: a protected existing output, an endpoint "
    "with existing outputs and a file that is both output and input are present. distinct = (flags, prompt, protect "
    "spelling classes, selection class)."
)
ASSUMPTIONS = ["no symlinks; outputs inside the project directory", "a declared output that exists as a directory is not a file in the sense of the property: clean may leave it in place"]


QUICK_BUDGET = {"cases": 3200, "deadline_s": 170, "case_timeout_s": 60, "floors": {"clean_runs": 1120, "files_compared": 28965, "remove_events_checked": 3000, "declined_checked": 175, "undeletable_output_cases": 150, "appeared_during_prompt": 45, "explicit_working_dir_cases": 300}}
THOROUGH_FACTOR = 11  # thorough = the same workload with 11x the cases (floors scale along)


def budget(tier):
    from ..core import scaled_budget

    return scaled_budget(QUICK_BUDGET, tier, THOROUGH_FACTOR, noscale=())


SPELL = ["rel", "dot", "updown", "abs", "absdot"]


def spell(kind, f):
    return {"rel": f, "dot": "./" + f, "updown": "zz/../" + f, "abs": "@ROOT@/" + f, "absdot": "@ROOT@/./" + f}[kind]


def gen_case(rng, idx, tier):
    dag = gen.gen_dag(rng, max_targets=8, p_noout=0.05)
    ticks = {s: 0 for s in dag["sources"]}
    allouts = [(o, t["name"]) for t in dag["targets"] for o in t["outs"]]
    for o, _ in allouts:
        ticks[o] = rng.choice([1, 1, 1, None])
    for t in dag["targets"]:
        t["spec"] = "echo %s\n" % t["name"]
        prot = []
        for o in t["outs"]:
            if rng.random() < 0.35:
                prot.append((rng.choice(SPELL), o))
        if allouts and rng.random() < 0.2:
            o, owner = rng.choice(allouts)
            if owner != t["name"]:
                prot.append((rng.choice(SPELL), o))  # protects a file that is not its own output
        t["protect"] = prot
    names = [t["name"] for t in dag["targets"]]
    pats = scenario.gen_selection(rng, names) if rng.random() < 0.55 else []
    return {
        "dag": dag,
        "ticks": ticks,
        "all": rng.random() < 0.5,
        "force": rng.random() < 0.5,
        "patterns": pats,
        "answer": rng.choice(["y\n", "y\n", "n\n", "", "yes\n", "N\n"]),
        "hashing": rng.random() < 0.5,
        "protect_shape": rng.choice(["list", "set", "tuple"]),
        "from": rng.choice(["root", "root", "sub", "elsewhere"]),
        # one declared output exists as a DIRECTORY: os.remove cannot delete it; everything else must still be cleaned
        "dir_pick": rng.randrange(1 << 30) if rng.random() < 0.15 else None,
        "late_pick": rng.randrange(1 << 30) if rng.random() < 0.5 else None,
        "verbosity": rng.choice([None, None, "warning", "error", "debug"]),
        "explicit_wd": rng.choice([None, None, None, None, None, "plain", "with_gwf_dir"]),
    }


def run_case(case):
    res = Result()
    with gen.Project() as proj:
        root = proj.root
        # the workflow may set its working directory explicitly (Workflow(working_dir=...)): the files then live there,
        # while configuration, logs and the spec-hash records stay with the project (next to workflow.py)
        wd = root
        if case.get("explicit_wd"):
            wd = os.path.join(proj.base, "datadir")
            os.makedirs(os.path.join(wd, ".gwf") if case["explicit_wd"] == "with_gwf_dir" else wd, exist_ok=True)
            res.mon("explicit_working_dir_cases")
        ts = case["dag"]["targets"]
        variant = []
        for t in ts:
            pl = [spell(k, f).replace("@ROOT@", wd) for k, f in t["protect"]]
            pe = None
            if pl:
                pe = {"list": repr(pl), "set": "set(%r)" % (pl,), "tuple": repr(tuple(pl))}[case["protect_shape"]]
            variant.append({"name": t["name"], "ins_expr": repr(t["ins"]), "outs_expr": repr(t["outs"]), "spec": t["spec"], "route": "target", "protect_expr": pe})
        proj.write_workflow(gen.render_workflow(variant, wf_kwargs=("working_dir=%r" % wd) if wd != root else ""))
        cfg = {"backend": "slurm"}
        if case["hashing"]:
            cfg["use_spec_hashes"] = True
        proj.write_config(cfg)
        for f, tk in case["ticks"].items():
            proj.set_file(os.path.join(wd, f), tk)
        dir_output = None
        existing_outs = sorted(o for t in ts for o in t["outs"] if case["ticks"].get(o) is not None)
        if case.get("dir_pick") is not None and existing_outs:
            dir_output = existing_outs[case["dir_pick"] % len(existing_outs)]
            os.remove(os.path.join(wd, dir_output))
            os.makedirs(os.path.join(wd, dir_output))
            proj.write(os.path.join(wd, dir_output, "inner.txt"), "inside a directory that is declared as an output\n")
            res.mon("undeletable_output_cases")
        proj.write("unrelated.txt", "keep me\n")
        proj.write("data/other.dat", "keep me too\n")
        os.makedirs(os.path.join(root, ".gwf", "logs"), exist_ok=True)
        for t in ts[:2]:
            proj.write(".gwf/logs/%s.stdout" % t["name"], "log\n")
        recs = {t["name"]: model.sha1(t["spec"]) for t in ts}
        recs["ghost"] = "0" * 40
        proj.write_state("spec-hashes.json", recs)
        proj.write_state("slurm-backend-tracked.json", {ts[0]["name"]: "77"})
        mts = [dict(t, wd=wd) for t in ts]
        deps, _, _ = model.dependency_relation(mts)
        names = set(deps)
        ends = model.endpoints(deps)
        sel = scenario.select(names, case["patterns"])
        selected = set(names) if sel is None else set(sel)
        if not case["all"]:
            selected -= ends
        prompt = not case["patterns"] and not case["force"]
        confirmed = (not prompt) or case["answer"].strip().lower() in ("y", "yes")
        removable = set()
        protected_existing = False
        for t in mts:
            prot = {model.resolve(wd, spell(k, f).replace("@ROOT@", wd)) for k, f in t["protect"]}
            for p in model.res_outs(t):
                if os.path.exists(p) and p in prot:
                    protected_existing = True
                if t["name"] in selected and os.path.exists(p) and p not in prot and not os.path.isdir(p):
                    removable.add(p)
        allowed_attempts = set()
        for t in mts:
            if t["name"] in selected:
                prot = {model.resolve(wd, spell(k, f).replace("@ROOT@", wd)) for k, f in t["protect"]}
                allowed_attempts |= {p for p in model.res_outs(t) if p not in prot}
        # invoking directory: project root, a sub-directory (parent search) or an unrelated directory with -f;
        # files with the SAME relative names as the outputs exist below the invoking directory (decoys)
        cwd, pre = root, []
        if case.get("from") == "sub":
            cwd = os.path.join(root, "subdir", "deeper")
        elif case.get("from") == "elsewhere":
            cwd = os.path.join(proj.base, "elsewhere")
            pre = ["-f", os.path.join(root, "workflow.py")]
        os.makedirs(cwd, exist_ok=True)
        if cwd != root:
            for t in ts:
                for o in t["outs"]:
                    dp = os.path.join(cwd, o)
                    os.makedirs(os.path.dirname(dp), exist_ok=True)
                    with open(dp, "w") as fh:
                        fh.write("decoy\n")
        before = gen.snapshot(proj.base, skip=("sim/",))
        if case.get("verbosity"):
            pre = pre + ["-v", case["verbosity"]]  # what is deleted never depends on how much is logged
        args = pre + ["clean"] + (["--all"] if case["all"] else []) + (["-f"] if case["force"] else []) + case["patterns"]
        env = cli.env_for(proj.simdir, ("slurm",))
        # sometimes an unprotected output of a selected target that was absent APPEARS while gwf waits at its prompt
        # (a job finishing meanwhile); confirmed with yes, it exists when the deletion happens and has to go as well
        late = None
        if prompt and confirmed and case.get("late_pick") is not None:
            cand = sorted(p for p in allowed_attempts if not os.path.lexists(p) and os.path.isdir(os.path.dirname(p)))
            if cand:
                late = cand[case["late_pick"] % len(cand)]
        if late is not None:

            def _appear():
                with open(late, "w") as fh:
                    fh.write("written while the prompt was waiting\n")

            r = cli.gwf(cwd, args, env, interact={"wait_for": "[y/N]", "then": _appear, "answer": case["answer"]})
            if getattr(r, "prompt_seen", False):
                res.mon("appeared_during_prompt")
                before[os.path.relpath(late, proj.base)] = ("late",)
                removable.add(late)
            else:
                late = None
        else:
            r = cli.gwf(cwd, args, env, stdin=case["answer"])
        after = gen.snapshot(proj.base, skip=("sim/",))
        res.mon("clean_runs")
        ctx = {"args": args, "answer": case["answer"], "selected": sorted(selected), "workflow": gen.render_workflow(variant)[:1500]}
        if r.crashed or r.timed_out or (confirmed and r.rc != 0) or (not confirmed and r.rc not in (1,)):
            res.violation("crash", "gwf %s exited %s (confirmed=%s)" % (" ".join(args), r.rc, confirmed), **cli.crash_witness(r), **ctx)
            return res
        d = gen.snap_diff(before, after)
        removed = {os.path.join(proj.base, p) for p in d["removed"]}
        res.mon("files_compared", len(before))
        res.obs("clean", {"args": args, "answer": case["answer"], "removed": sorted(d["removed"]), "expected_removable": sorted(os.path.relpath(x, root) for x in removable) if confirmed else [], "os_remove_events": len([e for e in r.audit if e["ev"] == "os.remove"])})
        other = [p for p in d["added"] + d["modified"] + d["touched"] if p not in ("proj/.gwf/spec-hashes.json", "proj/.gwf/spec-hashes.json.tmp")]
        removes = [e for e in r.audit if e["ev"] == "os.remove"]
        res.mon("remove_events_checked", len(removes) + 1)
        if not confirmed:
            res.mon("declined_checked")
            if removed or d["added"] or d["modified"] or removes:
                res.violation("declined-but-changed", "prompt declined but the tree changed: removed %s modified %s, %d os.remove events" % (sorted(removed), d["modified"], len(removes)), **ctx)
        else:
            wrong = sorted(removed - removable)
            missed = sorted(removable - removed)
            if wrong:
                mech = "deleted-protected" if any(w in {model.resolve(wd, spell(k, f).replace("@ROOT@", wd)) for t in ts for k, f in t["protect"]} for w in wrong) else "deleted-wrong-file"
                res.violation(mech, "clean removed %s which it must not (removable: %s)" % ([os.path.relpath(w, root) for w in wrong], sorted(os.path.relpath(x, root) for x in removable)), **ctx)
            if missed:
                res.violation("not-deleted", "clean left %s although they are unprotected existing outputs of selected targets" % [os.path.relpath(w, root) for w in missed], **ctx)
            if other:
                res.violation("clean-side-effect", "clean changed other files: %s" % other, **ctx)
            for e in removes:
                p = model.resolve(cwd, e["args"][0])
                if p not in allowed_attempts:
                    res.violation("deleted-wrong-file", "clean called os.remove on %s, not an unprotected output of a selected target" % p, **ctx)
            hashes = proj.state_files().get("spec-hashes.json")
            want = dict(recs)
            if case["hashing"]:
                for n in selected:
                    want.pop(n, None)
            res.mon("hash_files_checked")
            if hashes != want:
                res.violation("hash-records", "spec-hashes after clean: %s; expected records for %s" % (sorted(hashes) if isinstance(hashes, dict) else hashes, sorted(want)), hashing=case["hashing"], **ctx)
        inout = any(any(o in t2["ins"] for t2 in ts) for t in ts for o in t["outs"] if case["ticks"].get(o))
        endout = any(t["name"] in ends and any(case["ticks"].get(o) for o in t["outs"]) for t in ts)
        res.sig = (case["all"], case["force"], bool(case["patterns"]), case["answer"].strip(), sorted({k for t in ts for k, _ in t["protect"]}), case["hashing"], case.get("from"))
        res.nontrivial = protected_existing and endout and inout
    return res
