"""In-process (library lane) helpers.  Importing this module imports gwf from the
repository working tree into the *shard* process (a fresh process per run)."""

import os
import sys
from pathlib import Path  # noqa: F401  (used by eval'd expressions)

from .core import REPO

_src = os.path.join(REPO, "src")
if _src not in sys.path:
    sys.path.insert(0, _src)

import gwf  # noqa: E402
import gwf.core  # noqa: E402
import gwf.scheduling  # noqa: E402
from gwf import AnonymousTarget, Workflow  # noqa: E402,F401
from gwf.backends.base import BackendStatus  # noqa: E402
from gwf.core import CachedFilesystem, Graph, Status  # noqa: E402,F401

assert os.path.realpath(gwf.__file__).startswith(os.path.realpath(_src)), gwf.__file__


def ev(expr):
    from collections import ChainMap
    from types import MappingProxyType

    return eval(expr, {"Path": Path, "MappingProxyType": MappingProxyType, "ChainMap": ChainMap})


class FakeBackend:
    """answers status() from a dict name -> 'unknown'|'submitted'|...; records submit calls"""

    def __init__(self, states=None):
        self.states = states or {}
        self.submitted = []
        self.target_defaults = {}

    def status(self, target):
        return BackendStatus[self.states.get(target.name, "unknown").upper()]

    def submit(self, target, dependencies):
        self.submitted.append((target.name, sorted(d.name for d in dependencies)))

    def close(self):
        pass


def build_workflow(root, targets):
    """targets: dicts with name, ins_expr, outs_expr, spec, optional wd (absolute)"""
    wf = Workflow(working_dir=root)
    for t in targets:
        wd = t.get("wd_spelled") or t.get("wd")
        if t.get("wd") and t.get("reassign"):
            tgt = wf.target(t["name"], inputs=ev(t["ins_expr"]), outputs=ev(t["outs_expr"])) << t.get("spec", "")
            tgt.working_dir = wd
        elif t.get("wd"):
            tgt = gwf.core.Target(
                name=t["name"], inputs=ev(t["ins_expr"]), outputs=ev(t["outs_expr"]), options={}, working_dir=wd, spec=t.get("spec", "")
            )
            wf._add_target(tgt)
        else:
            wf.target(t["name"], inputs=ev(t["ins_expr"]), outputs=ev(t["outs_expr"])) << t.get("spec", "")
    return wf


def graph_of(wf):
    return Graph.from_targets(wf.targets, CachedFilesystem())
