"""Shared scenario machinery for the scheduler-backed checks (C02, C05-C10, C15-C18)."""

import os
import re

from . import cli, gen, model, simcluster

SCHEDS = ("slurm", "sge", "lsf")

# which gwf-level backend states can be produced on which scheduler (by construction of
# the scheduler itself: SGE forgets finished jobs, LSF has no "cancelled")
REPRESENTABLE = {
    "slurm": ("unknown", "submitted", "running", "completed", "failed", "cancelled"),
    "sge": ("unknown", "submitted", "running"),
    "lsf": ("unknown", "submitted", "running", "completed", "failed"),
}


def glob_match(pat, name):
    """own fnmatch: * ? [seq] [!seq]"""
    rx = ""
    i = 0
    while i < len(pat):
        c = pat[i]
        if c == "*":
            rx += ".*"
        elif c == "?":
            rx += "."
        elif c == "[":
            j = pat.find("]", i + 2 if pat[i + 1 : i + 2] in ("!", "]") else i + 1)
            if j < 0:
                rx += re.escape(c)
            else:
                body = pat[i + 1 : j]
                if body.startswith("!"):
                    body = "^" + body[1:]
                rx += "[" + body.replace("\\", "\\\\") + "]"
                i = j
        else:
            rx += re.escape(c)
        i += 1
    return re.fullmatch(rx, name, re.S) is not None


def select(names, patterns):
    if not patterns:
        return None
    return {n for n in names for p in patterns if glob_match(p, n)}


def gen_selection(rng, names, deps=None):
    """-> list of patterns (possibly empty = default)"""
    k = rng.random()
    names = sorted(names)
    if k < 0.3:
        return []
    if k < 0.6:
        return rng.sample(names, rng.randint(1, min(2, len(names))))
    if k < 0.75:
        return [rng.choice(["t[0-2]", "t?", "t1*", "*", "t[!0]", "nomatch*"])]
    if k < 0.9:
        return [rng.choice(names), rng.choice(["t[3-9]", "t0", "zz*"])]
    return [rng.choice(names)] * 2


def place_state(sim, sched, name, state, rng=None):
    """create a job in the simulator such that the scheduler reports `state` for it; returns id or None"""
    if state == "unknown":
        return None
    if state == "submitted":
        return sim.add_job(name, phase="pending", sched=sched)
    if state == "running":
        return sim.add_job(name, phase="running", sched=sched)
    if state == "completed":
        return sim.add_job(name, phase="finished", exit=0, sched=sched)
    if state == "failed":
        return sim.add_job(name, phase="finished", exit=1, sched=sched)
    if state == "cancelled":
        return sim.add_job(name, phase="cancelled", sched=sched)
    if state == "sge_error":
        return sim.add_job(name, phase="pending", sched=sched, code="Eqw")  # queued in error state: will never run
    raise ValueError(state)


def backend_view(sim, tracked, sched, accounting=True):
    """what the scheduler would tell about each tracked target's job (my own table):
    name -> 'unknown'|'submitted'|'running'|'completed'|'failed'|'cancelled'"""
    jobs = sim.jobs()
    out = {}
    for name, jid in tracked.items():
        j = jobs.get(str(jid).strip())
        if j is None or j["sched"] != sched:
            out[name] = "unknown"
            continue
        ph = j["phase"]
        if sched == "slurm" and j.get("purged") and accounting and j.get("acct"):
            # gone from the controller; the (lagging) accounting database is all the scheduler says about it
            out[name] = {"pending": "submitted", "running": "running"}.get(j["acct"]["phase"], "failed")
            continue
        if sched == "slurm" and j.get("in_queue") and ph == "cancelled" and not j.get("code"):
            out[name] = "cancelled"  # still listed by the live queue as CA: the live queue wins over a stale accounting record
            continue
        if sched == "slurm" and j.get("in_queue") and j.get("code") in ("CG", "R", "PD"):
            # still listed by the live queue (e.g. COMPLETING) although accounting already knows the end:
            # the live queue wins
            out[name] = {"CG": "running", "R": "running", "PD": "submitted"}[j["code"]]
            continue
        if sched == "sge" and j.get("code") and ("E" in j["code"] or "d" in j["code"]):
            out[name] = "unknown"  # error state (Eqw) / deletion registered: gwf takes the file-based decision
            continue
        if ph == "pending":
            out[name] = "submitted"
        elif ph == "running":
            out[name] = "running"
        elif sched == "sge":
            out[name] = "unknown"  # SGE forgets finished jobs
        elif sched == "slurm":
            if not accounting:
                out[name] = "unknown"
            elif ph == "cancelled":
                out[name] = "cancelled"
            else:
                out[name] = "completed" if j["exit"] == 0 else "failed"
        elif sched == "lsf":
            out[name] = "completed" if (ph == "finished" and j["exit"] == 0) else "failed"
    return out


def latest_jobs(sim, sched, names=None):
    """name -> id of the latest job the scheduler accepted under that name from user 'me' (the scheduler's own table)"""
    out = {}
    for j in sorted(sim.jobs().values(), key=lambda j: int(j["id"])):
        if j["user"] == "me" and j["sched"] == sched and (names is None or j["name"] in names):
            out[j["name"]] = j["id"]
    return out


def check_tracked(res, sim, sched, tracked, names, ctx):
    """the tracked-jobs file must name, for every target the scheduler has a job for, the LATEST such job"""
    truth = latest_jobs(sim, sched, names)
    stale = {n: (tracked.get(n), truth[n]) for n in truth if str(tracked.get(n)) != truth[n]}
    if stale:
        res.violation("stale-tracked-id", "tracked-jobs file does not name the latest job of %s (file id, scheduler's latest id): %s" % (sorted(stale), stale), **ctx)
    merged = dict(tracked)
    merged.update(truth)
    return merged


def tracked_file(sched):
    return "%s-backend-tracked.json" % sched


def disk_mtimes(paths):
    out = {}
    for p in paths:
        try:
            out[p] = os.stat(p).st_mtime
        except FileNotFoundError:
            out[p] = None
    return out


def all_paths(mts):
    s = set()
    for t in mts:
        s.update(model.res_ins(t))
        s.update(model.res_outs(t))
    return s


def create_outputs(t_model):
    """virtual execution of a job: create/refresh its declared outputs now"""
    for p in model.res_outs(t_model):
        os.makedirs(os.path.dirname(p), exist_ok=True)
        with open(p, "a"):
            pass
        os.utime(p, None)


def submissions_view(sim, since):
    """accepted submissions after `since`: list of dict(name, id, seq, prereq_ids, opclass, dep_raw)"""
    jobs = sim.jobs()
    out = []
    for rec in sim.submissions(since):
        ids, opclass, raw = simcluster.submission_prereq_ids(rec, jobs)
        out.append({"name": jobs[rec["job"]]["name"], "id": rec["job"], "seq": rec["seq"], "prereq_ids": ids, "opclass": opclass, "dep_raw": raw, "argv": rec["argv"]})
    return out


def check_plan(res, subs, want_submit, want_prereq, tracked_before, sched, ctx, deps=None):
    """C02/C07 syntactic part.  subs from submissions_view; tracked_before: name -> id before the run."""
    names = [s["name"] for s in subs]
    res.mon("submissions", len(names))
    if sorted(names) != sorted(want_submit):
        dup = sorted({n for n in names if names.count(n) > 1})
        if dup:
            res.violation("double-submission", "targets submitted more than once: %s" % dup, submitted=names, **ctx)
        extra = sorted(set(names) - set(want_submit))
        missing = sorted(set(want_submit) - set(names))
        if extra or missing:
            res.violation("plan-mismatch", "submitted %s; expected %s (extra %s, missing %s)" % (sorted(names), sorted(want_submit), extra, missing), **ctx)
        return False
    newid = {s["name"]: s["id"] for s in subs}
    seq = {s["name"]: s["seq"] for s in subs}
    ok = True
    for s in subs:
        n = s["name"]
        want_ids = set()
        for d in want_prereq[n]:
            want_ids.add(newid[d] if d in newid else str(tracked_before.get(d)))
        got_ids = set(s["prereq_ids"])
        res.mon("prereq_sets")
        if got_ids != want_ids or len(s["prereq_ids"]) != len(got_ids):
            ok = False
            res.violation(
                "prereq-mismatch",
                "%s submitted with prerequisites %r (raw %r); expected ids %s (= latest jobs of %s)" % (n, s["prereq_ids"], s["dep_raw"], sorted(want_ids), sorted(want_prereq[n])),
                **ctx,
            )
        if want_ids and s["opclass"] not in ("all-ok", "all-ended"):
            ok = False
            res.violation("prereq-operator", "%s: dependency argument %r is not the scheduler's 'all finished successfully' form" % (n, s["dep_raw"]), **ctx)
        for d in want_prereq[n]:
            if d in seq and seq[d] > seq[n]:
                ok = False
                res.violation("order", "%s was submitted before its prerequisite %s" % (n, d), **ctx)
    return ok
