"""Framework core: seeds, sharding, verdicts, evidence, known findings, replay.

A *check module* (vlib/checks/cXX.py) provides

    ID            property id
    LEVEL         evidence level category
    RULE          text: how cases are generated and what makes one non-trivial
    ASSUMPTIONS   list of strings
    def budget(tier) -> {"cases": int, "deadline_s": float, "case_timeout_s": float,
                         "floors": {monitor: min_events}}
    def gen_case(rng, idx, tier) -> JSON-able case
    def run_case(case) -> Result

The framework shards the case indices over worker *processes* (plain
subprocesses, never multiprocessing.Pool), aggregates the per-case results,
classifies violations against known_findings.json, writes the evidence file and
decides the three-valued verdict:

    exit 0  held on everything explored (every monitor reached its floor)
    exit 1  VIOLATION property=<id> replay=<path>
    exit 2  INCONCLUSIVE property=<id> reason=...
"""

import hashlib
import importlib
import json
import os
import random
import signal
import subprocess
import sys
import tempfile
import time
import traceback

VERIF = os.path.dirname(os.path.dirname(os.path.abspath(__file__)))
OUTDIR = os.environ.get("VERIF_OUT", VERIF)  # evidence/ and replays/ go here (self-test runs redirect it)
REPO = os.environ.get("GWF_VERIF_REPO", "/repo")
PY = sys.executable
NPROC = int(os.environ.get("VERIF_JOBS", "0")) or min(16, os.cpu_count() or 4)

LEVELS = (
    "exploration",
    "fault_enumeration",
    "model_checking",
    "proof",
    "translation_validation",
    "other",
)


class CaseTimeout(KeyboardInterrupt):
    """Raised by the per-case watchdog (SIGALRM).  Derives from KeyboardInterrupt so that asyncio does not
    swallow it inside a task but lets it propagate out of the running event loop."""


class Inconclusive(Exception):
    """Raised by a check when a case could not be decided (not a violation)."""


def stable_hash(*parts):
    h = hashlib.sha256()
    for p in parts:
        h.update(json.dumps(p, sort_keys=True, default=str).encode())
        h.update(b"\0")
    return h.hexdigest()


def case_rng(prop, seed, idx):
    return random.Random(int(stable_hash(prop, seed, idx)[:16], 16))


class Result:
    """Outcome of one case."""

    def __init__(self):
        self.sig = None  # hashable/JSON-able signature (distinctness)
        self.nontrivial = False
        self.violations = []  # list of dicts: mech, msg, witness
        self.monitors = {}  # name -> events observed
        self.extra = {}  # free-form counters (summed when numeric)
        self.inconclusive = None  # reason string
        self.observed = {}  # a few things the monitors actually saw in this case (kept for sampled cases)

    def obs(self, key, value):
        if len(self.observed) < 12:
            self.observed[key] = value

    def mon(self, name, n=1):
        self.monitors[name] = self.monitors.get(name, 0) + n

    def count(self, name, n=1):
        self.extra[name] = self.extra.get(name, 0) + n

    def violation(self, mech, msg, **witness):
        self.violations.append({"mech": mech, "msg": msg, "witness": witness})

    def as_json(self):
        return {
            "sig": self.sig,
            "nontrivial": bool(self.nontrivial),
            "violations": self.violations,
            "monitors": self.monitors,
            "extra": self.extra,
            "inconclusive": self.inconclusive,
            "observed": self.observed,
        }


def scaled_budget(quick, tier, factor, noscale=(), deadline_s=1500, case_timeout_s=None):
    """thorough tier = the quick workload scaled by `factor` (more cases => more seeds, shapes, interleavings);
    monitor floors scale with it (x0.6 margin) except those in `noscale`."""
    b = dict(quick)
    if tier != "thorough":
        return b
    b["cases"] = int(quick["cases"] * factor)
    b["deadline_s"] = deadline_s
    if case_timeout_s:
        b["case_timeout_s"] = case_timeout_s
    b["floors"] = {k: (v if k in noscale else int(v * factor * 0.6)) for k, v in quick.get("floors", {}).items()}
    return b


def load_check(prop):
    return importlib.import_module("vlib.checks." + prop.lower())


def load_known_findings():
    path = os.path.join(VERIF, "known_findings.json")
    try:
        with open(path) as f:
            data = json.load(f)
    except FileNotFoundError:
        return []
    return data.get("findings", [])


def known_mechs(prop):
    """mechanism key -> description for findings that are *recorded, not repaired*."""
    out = {}
    for f in load_known_findings():
        if f.get("property") == prop and f.get("status") == "known":
            out[f["mechanism"]] = f.get("what", f["mechanism"])
    return out


# --------------------------------------------------------------------------
# shard worker
# --------------------------------------------------------------------------


def _alarm(signum, frame):
    raise CaseTimeout()


def run_one(mod, case, timeout_s):
    """Run one case under the per-case watchdog; never raises."""
    res = None
    signal.signal(signal.SIGALRM, _alarm)
    signal.alarm(int(timeout_s))
    t0 = time.time()
    try:
        res = mod.run_case(case)
    except CaseTimeout as e:
        res = None
        frames = [(f.filename, f.name, f.lineno) for f in traceback.extract_tb(e.__traceback__)]
        if hasattr(mod, "on_timeout"):
            try:
                res = mod.on_timeout(case, frames, timeout_s)
            except Exception:
                res = None
        if res is None:
            res = Result()
            res.inconclusive = "case watchdog (%ss) fired at %s" % (timeout_s, frames[-1:] )
    except Inconclusive as e:
        res = Result()
        res.inconclusive = "inconclusive: %s" % e
    except (SystemExit, KeyboardInterrupt):
        raise
    except BaseException:  # harness bug: never a verdict about gwf
        res = Result()
        res.inconclusive = "harness exception: " + traceback.format_exc()[-3000:]
    finally:
        signal.alarm(0)
    out = res.as_json()
    out["wall_s"] = round(time.time() - t0, 3)
    return out


def shard_main(prop, tier, seed, shard, nshards, outpath, ncases, deadline_s):
    mod = load_check(prop)
    b = mod.budget(tier)
    t_end = time.time() + deadline_s

    def _term(signum, frame):  # unwind context managers (temp dirs, worker pools) when the driver stops us
        raise SystemExit(143)

    signal.signal(signal.SIGTERM, _term)
    with open(outpath, "a") as out:
        for idx in range(shard, ncases, nshards):
            if time.time() > t_end:
                out.write(json.dumps({"idx": idx, "skipped": "deadline"}) + "\n")
                out.flush()
                continue
            rng = case_rng(prop, seed, idx)
            try:
                case = mod.gen_case(rng, idx, tier)
            except BaseException:
                out.write(
                    json.dumps(
                        {
                            "idx": idx,
                            "inconclusive": "generator exception: "
                            + traceback.format_exc()[-2000:],
                        }
                    )
                    + "\n"
                )
                out.flush()
                continue
            tmo = b.get("case_timeout_s", 60)
            if isinstance(case, dict) and case.get("timeout_s"):
                tmo = case["timeout_s"]
            r = run_one(mod, case, tmo)
            r["idx"] = idx
            if r["violations"] or idx % 97 == 0 or r.get("inconclusive"):
                r["case"] = case
            else:
                r["case_hash"] = stable_hash(case)[:12]
                r.pop("observed", None)
            out.write(json.dumps(r, default=str) + "\n")
            out.flush()
    return 0


# --------------------------------------------------------------------------
# driver
# --------------------------------------------------------------------------


def _write_replay(prop, case, viol, seed, idx, tier):
    d = os.path.join(OUTDIR, "replays", prop)
    os.makedirs(d, exist_ok=True)
    h = stable_hash(case, viol.get("mech"))[:16]
    path = os.path.join(d, h + ".json")
    with open(path, "w") as f:
        json.dump(
            {
                "property": prop,
                "seed": seed,
                "idx": idx,
                "tier": tier,
                "case": case,
                "violation": viol,
            },
            f,
            indent=1,
            default=str,
        )
    return os.path.relpath(path, VERIF) if OUTDIR == VERIF else path


def _sample_trim(obj, limit=6000):
    s = json.dumps(obj, default=str)
    if len(s) <= limit:
        return obj
    return {"truncated_json": s[:limit]}


def drive(prop, tier, seed, jobs=None):
    mod = load_check(prop)
    b = mod.budget(tier)
    ncases = int(os.environ.get("VERIF_CASES", b["cases"]))
    deadline_s = float(os.environ.get("VERIF_DEADLINE", b.get("deadline_s", 120)))
    nshards = jobs or NPROC
    nshards = max(1, min(nshards, ncases))
    t0 = time.time()
    tmp = tempfile.mkdtemp(prefix="gwfv-%s-" % prop.lower())
    procs = []
    env = dict(os.environ)
    env.setdefault("PYTHONHASHSEED", "0")
    env["PYTHONPATH"] = VERIF
    if os.environ.get("VERIF_COV"):  # development aid, see vlib/cov.py
        env["PYTHONPATH"] = os.path.join(VERIF, "vlib", "covsite") + os.pathsep + VERIF
    env["PYTHONDONTWRITEBYTECODE"] = "1"
    for s in range(nshards):
        outp = os.path.join(tmp, "shard%d.jsonl" % s)
        errp = os.path.join(tmp, "shard%d.err" % s)
        cmd = [
            PY,
            os.path.join(VERIF, "vcheck"),
            prop,
            "--tier",
            tier,
            "--seed",
            str(seed),
            "--shard",
            "%d/%d" % (s, nshards),
            "--out",
            outp,
            "--cases",
            str(ncases),
            "--deadline",
            str(deadline_s),
        ]
        procs.append(
            (s, outp, errp, subprocess.Popen(cmd, env=env, stderr=open(errp, "w"), cwd=VERIF))
        )
    hard = deadline_s + b.get("case_timeout_s", 60) + 60
    shard_problems = []
    failfast = os.environ.get("VERIF_FAILFAST")
    known = known_mechs(prop)
    pos = {}
    stopped = False
    stop_t = 0.0
    while True:
        alive = [p for _, _, _, p in procs if p.poll() is None]
        if not alive:
            break
        if time.time() - t0 > hard:
            for s, outp, errp, p in procs:
                if p.poll() is None:
                    p.kill()
                    shard_problems.append("shard %d exceeded hard deadline" % s)
            break
        if failfast and not stopped:
            for s, outp, errp, p in procs:
                try:
                    with open(outp) as f:
                        f.seek(pos.get(outp, 0))
                        chunk = f.read()
                        pos[outp] = f.tell()
                except FileNotFoundError:
                    continue
                for line in chunk.splitlines():
                    if '"violations": [{' in line:
                        try:
                            rec = json.loads(line)
                        except ValueError:
                            continue
                        if any(v["mech"] not in known for v in rec.get("violations", [])):
                            stopped = True
            if stopped:
                stop_t = time.time()
                for _, _, _, p in procs:
                    if p.poll() is None:
                        p.terminate()
        if stopped and time.time() - stop_t > 20:
            # a shard that does not react to SIGTERM (e.g. spinning inside the code under test): never leave it behind
            for _, _, _, p in procs:
                if p.poll() is None:
                    p.kill()
        time.sleep(0.3)
    for s, outp, errp, p in procs:
        rc = p.wait()
        if rc != 0 and not stopped:
            with open(errp) as f:
                shard_problems.append("shard %d exit %s: %s" % (s, rc, f.read()[-1500:]))

    results = []
    for s, outp, errp, p in procs:
        try:
            with open(outp) as f:
                for line in f:
                    line = line.strip()
                    if line:
                        results.append(json.loads(line))
        except FileNotFoundError:
            shard_problems.append("shard %d wrote nothing" % s)
    subprocess.call(["rm", "-rf", tmp])

    return aggregate(mod, prop, tier, seed, results, shard_problems, time.time() - t0, ncases)


def aggregate(mod, prop, tier, seed, results, shard_problems, wall, ncases):
    b = mod.budget(tier)
    known = known_mechs(prop)
    monitors = {}
    extra = {}
    sigs = set()
    evaluations = 0
    skipped = 0
    inconcl = []
    violations = []
    known_hits = {}
    samples = []
    for r in results:
        if "skipped" in r:
            skipped += 1
            continue
        if r.get("inconclusive"):
            inconcl.append((r["idx"], r["inconclusive"]))
            continue
        evaluations += 1
        for k, v in (r.get("monitors") or {}).items():
            monitors[k] = monitors.get(k, 0) + v
        for k, v in (r.get("extra") or {}).items():
            if isinstance(v, (int, float)):
                extra[k] = extra.get(k, 0) + v
        if r.get("nontrivial") and r.get("sig") is not None:
            sigs.add(json.dumps(r["sig"], sort_keys=True, default=str))
        for v in r.get("violations") or []:
            if v["mech"] in known:
                known_hits.setdefault(v["mech"], []).append(r["idx"])
            else:
                violations.append((r, v))
        if "case" in r and len(samples) < 3 and not r.get("violations"):
            samples.append(_sample_trim({"idx": r["idx"], "case": r["case"], "sig": r.get("sig"), "observed": r.get("observed"), "monitors": r.get("monitors")}, 9000))

    floors = b.get("floors", {})
    unmet = {k: (monitors.get(k, 0), v) for k, v in floors.items() if monitors.get(k, 0) < v}

    lines = []
    for mech, idxs in sorted(known_hits.items()):
        lines.append(
            "KNOWN-FINDING: property=%s %s [mechanism=%s, %d case(s)]"
            % (prop, known[mech], mech, len(idxs))
        )
    replay_paths = []
    seen_mech = {}
    for r, v in violations:
        n = seen_mech.get(v["mech"], 0)
        seen_mech[v["mech"]] = n + 1
        if n >= 5:
            continue
        path = _write_replay(prop, r.get("case"), v, seed, r["idx"], tier)
        replay_paths.append(path)
        lines.append("VIOLATION property=%s replay=%s" % (prop, path))
        lines.append("  mechanism=%s :: %s" % (v["mech"], v["msg"][:600]))

    if not samples:
        for r in results:
            if "case" in r:
                samples.append(_sample_trim({"idx": r["idx"], "case": r["case"]}))
                break

    status = "held"
    reason = None
    if violations:
        status = "violated"
    elif shard_problems or unmet or (inconcl and len(inconcl) > max(2, evaluations // 20)) or evaluations == 0:
        status = "inconclusive"
        reason = "; ".join(
            ([("shards: " + " | ".join(shard_problems))] if shard_problems else [])
            + ([("monitor floors unmet: %s" % unmet)] if unmet else [])
            + ([("%d inconclusive cases, first: %s" % (len(inconcl), inconcl[0][1][:500]))] if inconcl else [])
            + (["no case evaluated"] if evaluations == 0 else [])
        )

    evidence = {
        "property_id": prop,
        "tier": tier,
        "seed": int(seed),
        "level": mod.LEVEL,
        "coverage": {
            "evaluations": evaluations,
            "distinct_nontrivial": len(sigs),
            "rule": mod.RULE,
            "samples": samples,
            "monitors": monitors,
            "counters": extra,
            "cases_planned": ncases,
            "cases_skipped_deadline": skipped,
            "cases_inconclusive": len(inconcl),
            "monitor_floors": floors,
            "known_finding_hits": {k: len(v) for k, v in known_hits.items()},
            "verdict": status,
            "exhaustive": False,
        },
        "assumptions": list(getattr(mod, "ASSUMPTIONS", [])),
        "wall_s": round(wall, 2),
        "violations": len(violations),
    }
    if reason:
        evidence["coverage"]["inconclusive_reason"] = reason[:2000]
    problems = validate_evidence(evidence)
    if problems:
        # do not write a file that would be taken for evidence
        status = "inconclusive" if status == "held" else status
        reason = (reason or "") + " evidence invalid: %s" % problems
    os.makedirs(os.path.join(OUTDIR, "evidence"), exist_ok=True)
    with open(os.path.join(OUTDIR, "evidence", prop + ".json"), "w") as f:
        json.dump(evidence, f, indent=1, default=str)

    print(
        "%s tier=%s seed=%s cases=%d/%d distinct_nontrivial=%d wall=%.1fs verdict=%s"
        % (prop, tier, seed, evaluations, ncases, len(sigs), wall, status)
    )
    print("  monitors: " + json.dumps(monitors, sort_keys=True))
    if extra:
        print("  counters: " + json.dumps(extra, sort_keys=True))
    for ln in lines:
        print(ln)
    if inconcl:
        print("  note: %d inconclusive case(s) (not counted), first: idx=%s %s" % (len(inconcl), inconcl[0][0], inconcl[0][1][:700].replace("\n", " | ")))
    if skipped:
        print("  note: %d case(s) skipped at the deadline" % skipped)
    if status == "violated":
        return 1
    if status == "inconclusive":
        print("INCONCLUSIVE property=%s reason=%s" % (prop, (reason or "")[:1500]))
        return 2
    return 0


def validate_evidence(ev):
    """Minimal hand-rolled validation of the parts of EVIDENCE.schema.json we use."""
    probs = []
    for k in ("property_id", "tier", "seed", "level", "coverage", "wall_s"):
        if k not in ev:
            probs.append("missing " + k)
    if ev.get("tier") not in ("quick", "thorough"):
        probs.append("tier")
    if ev.get("level") not in LEVELS:
        probs.append("level")
    if not isinstance(ev.get("seed"), int):
        probs.append("seed type")
    cov = ev.get("coverage", {})
    if cov.get("evaluations", 0) < 1:
        probs.append("evaluations<1")
    if cov.get("distinct_nontrivial", 0) < 2:
        probs.append("distinct_nontrivial<2")
    if not isinstance(cov.get("rule"), str):
        probs.append("rule")
    if not cov.get("samples"):
        probs.append("samples empty")
    return probs


def replay(prop, path):
    mod = load_check(prop)
    with open(path) as f:
        rec = json.load(f)
    b = mod.budget(rec.get("tier", "quick"))
    r = run_one(mod, rec["case"], b.get("case_timeout_s", 60) * 3)
    known = known_mechs(prop)
    print(json.dumps({k: r[k] for k in ("sig", "nontrivial", "monitors", "inconclusive")}, default=str))
    rc = 0
    for v in r["violations"]:
        if v["mech"] in known:
            print("KNOWN-FINDING: property=%s %s" % (prop, known[v["mech"]]))
        else:
            print("VIOLATION property=%s replay=%s" % (prop, path))
            print("  mechanism=%s :: %s" % (v["mech"], v["msg"]))
            print("  witness: " + json.dumps(v["witness"], default=str)[:4000])
            rc = 1
    if r.get("inconclusive"):
        print("INCONCLUSIVE property=%s reason=%s" % (prop, r["inconclusive"]))
        return 2
    return rc
