"""Convenience layer over the fork runner for CLI lanes."""

import re

from . import runner, simcluster

ANSI = re.compile(r"\x1b\[[0-9;]*m")
STATUSES = ("shouldrun", "submitted", "running", "completed", "failed", "cancelled")


def env_for(simdir=None, scheds=("slurm",), extra=None):
    e = runner.base_env([simcluster.bindir(s) for s in scheds])
    if simdir:
        e["SIMCLUSTER_DIR"] = simdir
    if extra:
        e.update(extra)
    return e


def gwf(cwd, args, env, **kw):
    return runner.run_gwf(args, cwd, env=env, **kw)


def parse_status(out):
    """rows of the default `gwf status` table -> list of (name, status)"""
    rows = []
    for ln in ANSI.sub("", out).splitlines():
        parts = ln.split()
        if len(parts) >= 3 and parts[-1] in STATUSES:
            rows.append((parts[1], parts[-1]))
    return rows


def parse_summary(out):
    d = {}
    for ln in ANSI.sub("", out).splitlines():
        parts = ln.split()
        if len(parts) >= 3 and parts[1] in STATUSES:
            try:
                d[parts[1]] = int(parts[2])
            except ValueError:
                pass
    return d


def would_submit(err):
    return [m.group(1) for m in re.finditer(r"^Would submit (\S+)$", ANSI.sub("", err), re.M)]


def is_click_error(res):
    """a clean, user-facing failure (click error / abort), not a crash"""
    return res.rc in (1, 2) and not res.traceback and ("Error:" in res.err or "Aborted!" in res.err or "Usage:" in res.err)


def crash_witness(res):
    return {"rc": res.rc, "exc": res.exc_type, "frames": res.gwf_frames()[-6:], "err_tail": res.err[-1500:]}
