"""R4 — a real `gwf -b local workers` process plus raw line-protocol clients."""

import json
import os
import signal
import socket
import subprocess
import sys
import time

from .core import Inconclusive, REPO


def free_port():
    s = socket.socket()
    s.bind(("127.0.0.1", 0))
    p = s.getsockname()[1]
    s.close()
    return p


class RawClient:
    def __init__(self, port, timeout=10):
        self.sock = socket.create_connection(("127.0.0.1", port), timeout=timeout)
        self.f = self.sock.makefile("rwb")

    def send_line(self, data):
        if isinstance(data, str):
            data = data.encode()
        self.f.write(data)
        self.f.flush()

    def send(self, kind, **kw):
        self.send_line(json.dumps(dict(__kind__=kind, **kw)) + "\n")

    def recv(self):
        line = self.f.readline()
        if not line:
            return None
        return json.loads(line)

    def close(self, polite=True):
        try:
            if polite:
                self.send("close")
        except OSError:
            pass
        try:
            self.sock.close()
        except OSError:
            pass


class Pool:
    def __init__(self, proj, ncores=2, write_config=True, extra_cfg=None, nofile=None, affinity=None):
        self.nofile = nofile  # soft RLIMIT_NOFILE of the pool process (None = inherited)
        self.affinity = affinity  # set of CPUs the pool process (and its jobs) may run on (None = inherited)
        self.proj = proj
        self.ncores = ncores
        self.port = None
        self.proc = None
        self.extra_cfg = extra_cfg or {}
        self.write_config = write_config
        self.log = os.path.join(proj.base, "pool.log")

    def start(self):
        self.port = free_port()
        if self.write_config:
            cfg = {"backend": "local", "backend.local.port": self.port, "backend.local.host": "127.0.0.1"}
            cfg.update(self.extra_cfg)
            self.proj.write_config(cfg)
        os.makedirs(os.path.join(self.proj.root, ".gwf", "logs"), exist_ok=True)
        env = {
            "PATH": "/usr/bin:/bin",
            "HOME": "/nonexistent",
            "LANG": "C.UTF-8",
            "PYTHONDONTWRITEBYTECODE": "1",
            "PYTHONPATH": os.path.join(REPO, "src"),
        }
        if os.environ.get("VERIF_COV"):  # development aid, see vlib/cov.py
            env["VERIF_COV"] = os.environ["VERIF_COV"]
            env["GWF_VERIF_REPO"] = REPO
            env["PYTHONPATH"] = os.path.join(os.path.dirname(os.path.abspath(__file__)), "covsite") + os.pathsep + env["PYTHONPATH"]
        self.proc = subprocess.Popen(
            [sys.executable, "-X", "dev", "-c", "import sys; from gwf.cli import main; sys.argv=['gwf']+sys.argv[1:]; main()", "-b", "local", "-v", "debug", "workers", "-n", str(self.ncores), "-p", str(self.port), "-h", "127.0.0.1"],
            cwd=self.proj.root,
            env=env,
            stdout=open(self.log, "ab"),
            stderr=subprocess.STDOUT,
            start_new_session=True,
            preexec_fn=self._preexec,
        )
        t0 = time.time()
        while time.time() - t0 < 20:
            try:
                s = socket.create_connection(("127.0.0.1", self.port), timeout=0.5)
                s.close()
                return self
            except OSError:
                if self.proc.poll() is not None:
                    break
                time.sleep(0.05)
        raise Inconclusive("worker pool did not come up: %s" % self.read_log()[-800:])

    def _preexec(self):
        import resource

        try:  # the pool must not outlive the shard that started it (PR_SET_PDEATHSIG = 1)
            import ctypes

            ctypes.CDLL(None).prctl(1, 9)
        except Exception:  # noqa: BLE001
            pass

        if self.nofile:
            resource.setrlimit(resource.RLIMIT_NOFILE, (self.nofile, resource.getrlimit(resource.RLIMIT_NOFILE)[1]))
        if self.affinity:
            os.sched_setaffinity(0, self.affinity)

    def alive(self):
        return self.proc is not None and self.proc.poll() is None

    def read_log(self):
        try:
            with open(self.log, errors="replace") as f:
                return f.read()
        except FileNotFoundError:
            return ""

    def stop(self):
        if self.proc is not None:
            try:
                os.killpg(self.proc.pid, signal.SIGKILL)
            except OSError:
                pass
            try:
                self.proc.wait(timeout=5)
            except subprocess.TimeoutExpired:
                pass
            self.proc = None

    def restart(self):
        port = self.port
        self.stop()
        self.start()  # new port, config rewritten
        return self

    def client(self):
        return RawClient(self.port)

    def states(self):
        c = self.client()
        try:
            c.send("get_task_states")
            m = c.recv()
            return {int(k): v for k, v in (m or {}).get("tasks", {}).items()}
        finally:
            c.close()

    def raw_enqueue(self, name, script, wd, time_limit=None, deps=()):
        c = self.client()
        try:
            c.send("enqueue_task", name=name, script=script, working_dir=wd, time_limit=time_limit, deps=list(deps))
            m = c.recv()
            return m["tid"]
        finally:
            c.close()

    def wait_states(self, pred, timeout=30):
        t0 = time.time()
        while time.time() - t0 < timeout:
            try:
                st = self.states()
                if pred(st):
                    return True
            except (OSError, ValueError, KeyError, TypeError):
                pass
            time.sleep(0.1)
        return False

    def __enter__(self):
        return self.start()

    def __exit__(self, *exc):
        self.stop()
