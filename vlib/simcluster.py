"""Harness side of the simulated schedulers: set-up, adversary, real execution."""

import json
import os
import re
import subprocess
import sys

from .core import VERIF

sys.path.insert(0, os.path.join(VERIF, "simbin"))
import simcore  # noqa: E402

SIMBIN = os.path.join(VERIF, "simbin")
SUBMIT_CMD = {"slurm": "sbatch", "sge": "qsub", "lsf": "bsub"}
CANCEL_CMD = {"slurm": "scancel", "sge": "qdel", "lsf": "bkill"}
QUERY_CMDS = {"slurm": ("squeue", "sacct"), "sge": ("qstat",), "lsf": ("bjobs",)}
ALL_SCHED_CMDS = {
    "slurm": ("sbatch", "squeue", "sacct", "scancel", "sinfo"),
    "sge": ("qsub", "qstat", "qdel", "qconf"),
    "lsf": ("bsub", "bjobs", "bkill"),
}


def bindir(sched):
    return os.path.join(SIMBIN, sched)


class SimCluster:
    def __init__(self, d, sched="slurm", first_id=1000, config=None):
        self.d = d
        self.sched = sched
        os.makedirs(d, exist_ok=True)
        if not os.path.exists(os.path.join(d, "state.json")):
            with open(os.path.join(d, "state.json"), "w") as f:
                json.dump(simcore.new_state(first_id, dict(config or {})), f)

    # ---- raw access -----------------------------------------------------
    def store(self):
        return simcore.Store(self.d)

    def state(self):
        with self.store() as s:
            return s.state

    def jobs(self):
        return self.state()["jobs"]

    def journal(self):
        out = []
        try:
            with open(os.path.join(self.d, "journal.jsonl")) as f:
                for ln in f:
                    ln = ln.strip()
                    if ln:
                        out.append(json.loads(ln))
        except FileNotFoundError:
            pass
        return out

    def seq(self):
        return self.state()["seq"]

    def set_config(self, **kw):
        with self.store() as s:
            s.state["config"].update(kw)

    def set_faults(self, faults, reset_counts=True):
        with self.store() as s:
            s.state["faults"] = list(faults)
            if reset_counts:
                s.state["counts"] = {}

    def env(self, extra_scheds=()):
        return {"SIMCLUSTER_DIR": self.d}

    # ---- direct state construction --------------------------------------
    def add_job(self, name, phase="pending", exit=None, user="me", code=None, acct="same", script="#!/bin/bash\n", sched=None, in_queue=None, jid=None):
        with self.store() as s:
            st = s.state
            if jid is not None:
                st["next_id"] = int(jid)
            j = simcore.new_job(st, sched or self.sched, name, script, [], self.d, None, None, {"opts": [], "multi": {}}, user=user)
            j["phase"] = phase
            j["exit"] = exit
            j["code"] = code
            if in_queue is not None:
                j["in_queue"] = in_queue
            if acct == "same":
                j["acct"] = {"phase": phase, "exit": exit, "code": code}
                if phase == "cancelled" and int(j["id"]) % 2 == 0:
                    j["acct"]["by"] = "1000"  # sacct then prints "CANCELLED by 1000"
            elif acct is not None:
                j["acct"] = acct
            j["submit_seq"] = s.next_seq()
            return j["id"]

    def update_job(self, jid, **kw):
        with self.store() as s:
            s.state["jobs"][jid].update(kw)

    # ---- adversary actions ----------------------------------------------
    def runnable(self):
        st = self.state()
        return [
            j["id"]
            for j in st["jobs"].values()
            if j["phase"] == "pending" and not j["held"] and j["user"] == "me" and simcore.dep_status(st, j) == "ready"
        ]

    def never(self):
        st = self.state()
        return [j["id"] for j in st["jobs"].values() if j["phase"] == "pending" and simcore.dep_status(st, j) == "never"]

    def running(self):
        return [j["id"] for j in self.jobs().values() if j["phase"] == "running" and j["user"] == "me"]

    def pending(self):
        return [j["id"] for j in self.jobs().values() if j["phase"] == "pending" and j["user"] == "me"]

    def start(self, jid):
        with self.store() as s:
            j = s.state["jobs"][jid]
            assert j["phase"] == "pending"
            assert simcore.dep_status(s.state, j) == "ready", "adversary may only start runnable jobs"
            j["phase"] = "running"
            j["start_seq"] = s.journal({"kind": "event", "event": "start", "id": jid, "name": j["name"]})
            if not s.state["config"].get("acct_lag"):
                j["acct"] = {"phase": "running", "exit": None, "code": None}

    def finish(self, jid, exit=0, code=None, real=False, env_extra=None):
        """finish a running job; with real=True the script is really executed by bash
        (exit code taken from the execution)"""
        info = None
        if real:
            j = self.jobs()[jid]
            info = execute_script(j, env_extra or {})
            exit = info["rc"]
        with self.store() as s:
            j = s.state["jobs"][jid]
            assert j["phase"] == "running"
            j["phase"] = "finished"
            j["exit"] = exit
            j["code"] = code
            j["end_seq"] = s.journal({"kind": "event", "event": "end", "id": jid, "name": j["name"], "exit": exit})
            if not s.state["config"].get("acct_lag"):
                j["acct"] = {"phase": "finished", "exit": exit, "code": code}
        return info

    def cancel(self, jid, by=None):
        with self.store() as s:
            j = s.state["jobs"][jid]
            j["phase"] = "cancelled"
            j["end_seq"] = s.journal({"kind": "event", "event": "cancel", "id": jid, "name": j["name"]})
            if by is None and int(jid) % 2 == 0:
                by = "1000"
            if not s.state["config"].get("acct_lag"):
                j["acct"] = {"phase": "cancelled", "exit": None, "code": None, "by": by}

    def acct_catch_up(self):
        with self.store() as s:
            for j in s.state["jobs"].values():
                j["acct"] = {"phase": j["phase"], "exit": j["exit"], "code": j["code"]}

    def drain(self, rng, real=False, fail=None, max_steps=10000, env_extra=None):
        """run every runnable job to completion in a random legal order.
        fail: dict jid/name -> exit code to force (virtual runs).  Returns event order."""
        order = []
        fail = fail or {}
        for _ in range(max_steps):
            run = sorted(self.runnable())
            act = sorted(self.running())
            choices = [("start", i) for i in run] + [("finish", i) for i in act]
            if not choices:
                break
            kind, jid = rng.choice(choices)
            if kind == "start":
                self.start(jid)
            else:
                name = self.jobs()[jid]["name"]
                ex = fail.get(jid, fail.get(name, 0))
                if real and ex == 0:
                    self.finish(jid, real=True, env_extra=env_extra)
                else:
                    self.finish(jid, exit=ex)
            order.append((kind, jid))
        return order

    # ---- journal views --------------------------------------------------
    def submissions(self, since=0):
        """accepted submissions after sequence number `since`, in order"""
        out = []
        for r in self.journal():
            if r["seq"] > since and r["kind"] == "cmd" and r["cmd"] in SUBMIT_CMD.values() and r.get("job"):
                out.append(r)
        return out

    def commands(self, since=0, cmds=None):
        return [r for r in self.journal() if r["seq"] > since and r["kind"] == "cmd" and (cmds is None or r["cmd"] in cmds)]


def script_out_err(job):
    """where the scheduler sends stdout/stderr according to the job's own directives"""
    opts = job["directives"]["opts"]
    m = {}
    for k, v in opts:
        m[k] = v
    sched = job["sched"]
    if sched == "slurm":
        out = m.get("output")
        err = m.get("error")
        if out is None:
            out = os.path.join(job["cwd"], "slurm-%s.out" % job["id"])
        if err is None:
            err = out
        rep = lambda p: p.replace("%j", job["id"]).replace("%x", job["name"])  # noqa: E731
        return rep(out), rep(err), "w"
    if sched == "sge":
        out = m.get("o") or os.path.join(job["cwd"], "%s.o%s" % (job["name"], job["id"]))
        err = m.get("e") or os.path.join(job["cwd"], "%s.e%s" % (job["name"], job["id"]))
        if m.get("j") == "y":
            err = out
        return out, err, "a"
    if sched == "lsf":
        out = m.get("oo") or m.get("o")
        err = m.get("eo") or m.get("e")
        mode = "w" if m.get("oo") else "a"
        if out is None:
            out = "/dev/null"
        if err is None:
            err = out
        return out.replace("%J", job["id"]), err.replace("%J", job["id"]), mode
    raise ValueError(sched)


def execute_script(job, env_extra, timeout=60):
    out, err, mode = script_out_err(job)
    env = {
        "PATH": "/usr/bin:/bin",
        "HOME": "/nonexistent",
        "LANG": "C.UTF-8",
        "SLURM_JOBID": job["id"],
        "SLURM_JOB_ID": job["id"],
        "JOB_ID": job["id"],
        "SGE_JOBID": job["id"],
        "LSB_JOBID": job["id"],
    }
    env.update(env_extra)
    fo = open(out, mode + "b")
    fe = fo if err == out else open(err, mode + "b")
    try:
        p = subprocess.run(["/bin/bash", "/dev/stdin"], input=job["script"].encode(), stdout=fo, stderr=fe, cwd=job["cwd"], env=env, timeout=timeout)
        rc = p.returncode
    except subprocess.TimeoutExpired:
        rc = -9
    finally:
        fo.close()
        if fe is not fo:
            fe.close()
    return {"rc": rc, "out": out, "err": err}


# --------------------------------------------------------------------------
# independent readers of what gwf handed to the scheduler
# --------------------------------------------------------------------------


def submission_name(rec, jobs):
    return jobs[rec["job"]]["name"]


def submission_prereq_ids(rec, jobs):
    """the set of job ids the *scheduler* understood as prerequisites (its own parse),
    plus the operator class: 'all-ok' means every listed job must succeed."""
    j = jobs[rec["job"]]
    d = j["dep"]
    if not d:
        return [], "none", j["dep_raw"]
    if j["sched"] == "slurm":
        ids = []
        ok = d["op"] == "all" or len(d["terms"]) == 1
        for t in d["terms"]:
            if t["type"] != "afterok":
                ok = False
            ids.extend(t["ids"])
        return ids, ("all-ok" if ok else "other"), j["dep_raw"]
    if j["sched"] == "sge":
        return list(d["ids"]) + ["name:" + n for n in d["names"]], ("all-ended" if not d["names"] else "other"), j["dep_raw"]
    if j["sched"] == "lsf":
        ids = []
        ok = True

        def walk(e):
            nonlocal ok
            if e[0] == "and":
                walk(e[1])
                walk(e[2])
            elif e[0] == "done":
                ids.append(e[1])
            else:
                ok = False
                for _, r in simcore.lsf_refs(e):
                    ids.append(r)

        walk(d)
        return ids, ("all-ok" if ok else "other"), j["dep_raw"]
    raise ValueError(j["sched"])
