"""Development aid: which statements of gwf's own source does a workload execute?

With VERIF_COV=<dir> set, every process of a check (shards, forked gwf invocations, real `gwf workers` pools and
other python children) appends each statement of <repo>/src/gwf it executes for the first time to <dir>/<pid>.txt
(sys.monitoring LINE events, disabled per location after the first hit, so the cost is negligible).
`tools/covreport.py` merges the files and lists what no check reached.  Not used by the registered commands."""
import os
import sys


def install(outdir=None, src=None):
    outdir = outdir or os.environ.get("VERIF_COV")
    if not outdir or not hasattr(sys, "monitoring"):
        return
    src = src or os.path.join(os.environ.get("GWF_VERIF_REPO", "/repo"), "src") + os.sep
    mon = sys.monitoring
    tool = mon.COVERAGE_ID
    try:
        mon.use_tool_id(tool, "verif-cov")
    except ValueError:
        return
    os.makedirs(outdir, exist_ok=True)
    state = {"pid": None, "fd": None}

    def on_line(code, line):
        f = code.co_filename
        if f.startswith(src):
            pid = os.getpid()
            if state["pid"] != pid:
                state["pid"] = pid
                state["fd"] = os.open(os.path.join(outdir, "%d.txt" % pid), os.O_WRONLY | os.O_CREAT | os.O_APPEND)
            try:
                os.write(state["fd"], ("%s:%d\n" % (f[len(src):], line)).encode())
            except OSError:
                pass
        return mon.DISABLE

    mon.register_callback(tool, mon.events.LINE, on_line)
    mon.set_events(tool, mon.events.LINE)
