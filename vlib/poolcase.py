"""Case generation and oracles shared by the local-pool checks C11-C14 (virtual-time lane)."""

import os

from . import vloop


def gen_pool_case(rng, bias=None, faults=True, max_tasks=12):
    n = rng.randint(1, max_tasks)
    tasks = []
    for i in range(n):
        nd = rng.choice([0, 0, 1, 1, 2, 3]) if i else 0
        deps = sorted(rng.sample(range(i), min(i, nd)))
        t = {"deps": deps, "time_limit": rng.choice([None, None, None, 0.5, 2, 5, 30])}
        if faults and rng.random() < 0.06:
            t["start_fail"] = True
        elif faults and rng.random() < 0.05:
            t["log_fail"] = True
        elif faults and rng.random() < 0.04:
            t["time_limit"] = rng.choice(["abc", [1], {"a": 1}])  # accepted by the server, breaks the wait: must end FAILED, process gone
            t["malformed"] = "time_limit"
        elif rng.random() < 0.03:
            t["time_limit"] = 0
        elif rng.random() < 0.07:
            t["empty_script"] = True  # Target.spec defaults to "": the shell still has to be started and exits 0
        tasks.append(t)
    logs_not_dir = faults and rng.random() < 0.03
    if logs_not_dir:
        for t in tasks:
            if not t.get("start_fail"):
                t["log_fail"] = True  # no task can write its logs
    return {
        "logs_not_dir": bool(logs_not_dir),
        "max_cores": rng.choice([1, 1, 2, 2, 3, 4]),
        "tasks": tasks,
        "adv_seed": rng.randrange(1 << 30),
        "cancels": rng.choice([0, 0, 1, 2, 3, 5]),
        "bursts": rng.random() < 0.3,
        "bias": bias or {},
        # negative codes: the task's own shell was killed by a signal from outside (OOM killer, kill -9 $$)
        "exit_codes": rng.choice([[0, 0, 0, 0, 1, 2, 137, -9, -11], [0], [0, 0, 1], [0, 1, 1], [0, 0, -9, -15]]),
        "timeout_s": 10,
    }


def on_timeout(case, frames, timeout_s, prop_mech="busy-loop"):
    """A virtual-time case cannot legitimately take seconds of wall-clock: if the watchdog interrupts it
    inside gwf's own code (not inside the harness), gwf is spinning without yielding to the event loop."""
    from .core import Result

    if case.get("lane") == "real":
        return None
    frames = [f for f in frames if f[1] != "_alarm"]  # drop the signal handler's own frame
    owner = None
    for f in reversed(frames):  # innermost frame that belongs to gwf, asyncio or the harness (skip json, re, ...)
        if "/gwf/" in f[0] or "/asyncio/" in f[0] or "/vlib/" in f[0] or "/selectors" in f[0]:
            owner = f
            break
    if owner is not None and "/gwf/" in owner[0]:
        res = Result()
        res.violation(prop_mech, "the pool's code ran for %ss of wall-clock time without yielding to the event loop (innermost frames: %s)" % (timeout_s, frames[-3:]))
        res.sig = "timeout"
        return res
    return None


def event_string(h, limit=60):
    s = []
    for e in h.events:
        k = e["kind"]
        if k == "exit":
            s.append("x%d%s" % (e["tid"], "" if e["code"] == 0 else "!"))
        elif k == "die":
            s.append("d%d" % e["tid"])
        elif k == "enqueue":
            s.append("e%d" % e["idx"])
        elif k == "cancel":
            s.append("c%d%s" % (e["tid"], "i" if e.get("immediate") else ""))
        elif k == "time":
            s.append("t")
        elif k == "client":
            s.append("k%d%s" % (e["conn"], e["op"][0]))
    return ".".join(s[:limit])


def witness(h, **kw):
    w = {"events": h.events[-80:], "transitions": h.transitions[-60:], "final": h.snapshots[-1]["states"] if h.snapshots else None, "exceptions": h.exc_log[-5:]}
    w.update(kw)
    return w


# ---------------------------------------------------------------- C11
def eval_c11(h, res):
    acc, deps, spawned = vloop.replay_model(h)
    for rec in h.spawns:
        res.mon("spawn_events")
        bad = {d: s for d, s in rec["dep_states"].items() if s != "COMPLETED"}
        badx = {d: x for d, x in rec["dep_exit"].items() if x != 0}
        if bad or badx:
            res.violation("spawn-before-deps", "task %s was started while dependencies were in states %s / exit codes %s" % (rec["tid"], bad, badx), **witness(h, spawn=rec))
    final = h.snapshots[-1]["states"] if h.snapshots else {}
    spawned_tids = {r["tid"] for r in h.spawns}
    for tid, ds in deps.items():
        badd = [d for d in ds if acc.get(d) and acc[d] <= vloop.BAD]
        if not badd:
            continue
        res.mon("bad_dep_tasks")
        if tid in spawned_tids and not all(_dep_ok_at_spawn(h, tid)):
            res.violation("spawn-after-bad-dep", "task %s has dependency(ies) %s that failed/were cancelled but was started" % (tid, badd), **witness(h))
        want = acc.get(tid, set())
        got = final.get(tid)
        if getattr(h, "aborted", False):
            continue
        if tid not in spawned_tids and got not in want:
            mech = "dep-failure-not-final" if got in ("RUNNING", "SUBMITTED") else "dep-failure-wrong-state"
            res.violation(mech, "task %s whose dependency %s ended badly finished in state %s; acceptable %s" % (tid, badd, got, sorted(want)), **witness(h))


def _dep_ok_at_spawn(h, tid):
    for rec in h.spawns:
        if rec["tid"] == tid:
            return [s == "COMPLETED" for s in rec["dep_states"].values()] or [True]
    return [True]


# ---------------------------------------------------------------- C12
def eval_c12(h, res):
    mc = h.case["max_cores"]
    for rec in h.spawns:
        res.mon("spawn_events")
        if not rec["failed_to_start"] and len(rec["live_before"]) + 1 > mc:
            res.violation("too-many-live", "spawn of task %s makes %d live processes with %d cores" % (rec["tid"], len(rec["live_before"]) + 1, mc), **witness(h, spawn=rec))
    acc, deps, _ = vloop.replay_model(h)
    for snap in h.snapshots:
        res.mon("quiescent_points")
        if len(snap["live"]) > mc:
            res.violation("too-many-live", "%d live processes at quiescent point %d with %d cores" % (len(snap["live"]), snap["q"], mc), **witness(h, snap=snap))
        if len(snap["held"]) < mc:
            for tid, st in snap["states"].items():
                if st == "SUBMITTED" and not snap["done"].get(tid, True):
                    ds = deps.get(tid)
                    if ds is None:
                        continue
                    if all(snap["states"].get(d) == "COMPLETED" for d in ds):
                        res.violation("idle-core", "quiescent point %d: task %s is ready (deps complete) but not started although only %d of %d cores are held" % (snap["q"], tid, len(snap["held"]), mc), **witness(h, snap=snap))
                        return


# ---------------------------------------------------------------- C13
LEGAL = {
    (None, "SUBMITTED"),
    ("SUBMITTED", "RUNNING"),
    ("SUBMITTED", "CANCELLED"),
    ("SUBMITTED", "FAILED"),
    ("SUBMITTED", "KILLED"),
    ("RUNNING", "COMPLETED"),
    ("RUNNING", "FAILED"),
    ("RUNNING", "KILLED"),
    ("RUNNING", "CANCELLED"),
}


def eval_c13(h, res):
    acc, deps, spawned = vloop.replay_model(h)
    final = h.snapshots[-1]["states"] if h.snapshots else {}
    aborted = getattr(h, "aborted", False)
    # transitions
    for tid, old, new, q, t in h.transitions:
        res.mon("transitions")
        if old in vloop.FINAL and new != old:
            res.violation("final-state-left", "task %s went from final state %s to %s at quiescent index %d" % (tid, old, new, q), **witness(h))
        elif (old, new) not in LEGAL and old != new:
            res.violation("illegal-transition", "task %s: %s -> %s" % (tid, old, new), **witness(h))
    # at most one spawn
    for tid, n in h.spawn_attempts.items():
        if n > 1:
            res.violation("respawn", "task %s was started %d times" % (tid, n), **witness(h))
    if aborted:
        return
    # final states and bounded liveness
    for tid, want in acc.items():
        res.mon("final_states")
        got = final.get(tid)
        idx = h.idx_of_tid.get(tid)
        tinfo = h.case["tasks"][idx] if idx is not None else {}
        if got not in vloop.FINAL:
            mech = "stuck-nonfinal"
            if tinfo.get("start_fail") or tinfo.get("log_fail"):
                mech = "stuck-after-unexpected-exception"
            elif any(final.get(d) not in vloop.FINAL for d in deps.get(tid, [])):
                mech = "stuck-behind-stuck-dep"
            res.violation(mech, "adversary exhausted, no timer pending, but task %s is in state %s (acceptable %s)" % (tid, got, sorted(want)), **witness(h))
        elif got not in want:
            res.violation("wrong-final-state", "task %s ended %s; what happened to it implies %s" % (tid, got, sorted(want)), **witness(h))
        t = h.scheduler.tasks.get(tid)
        if t is not None and not t.done():
            res.violation("coroutine-not-done", "task %s coroutine still pending at the end" % tid, **witness(h))
    # processes
    for p in h.procs:
        res.mon("processes")
        if p.live:
            res.violation("process-left-running", "process of task %s still alive at the end (state %s)" % (p.tid, final.get(p.tid)), **witness(h))
        st = final.get(p.tid)
        if p.natural_exit is None and (p.kill_calls + p.term_calls) == 0:
            res.violation("no-kill", "process of task %s neither exited nor was killed" % p.tid, **witness(h))
        idx = h.idx_of_tid.get(p.tid)
        tinfo = h.case["tasks"][idx]
        if p.natural_exit is not None and not tinfo.get("log_fail"):
            res.mon("logs_checked")
            for ext, data in ((".stdout", p.stdout), (".stderr", p.stderr)):
                path = os.path.join(h.workdir, ".gwf", "logs", "n%d%s" % (idx, ext))
                try:
                    with open(path, "rb") as f:
                        got = f.read()
                except FileNotFoundError:
                    got = None
                if got != data:
                    res.violation("log-incomplete", "log %s of task %s holds %r, the process wrote %r" % (ext, p.tid, (got or b"")[:40], data[:40]), **witness(h))
    # cancelling a final task changes nothing (the transitions check covers state; spawn count covers re-run)
    for tid, st, q in h.cancel_log:
        if st in vloop.FINAL:
            res.mon("cancel_on_final")
