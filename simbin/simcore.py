"""R2 — simulated schedulers (Slurm, SGE, LSF), written from the schedulers'
documentation and independent of gwf's code.

One multi-call program: the command is basename(argv[0]).  All state lives in
$SIMCLUSTER_DIR (state.json under an flock, journal.jsonl append-only).  The
same module is imported by the harness (`SimCluster`, the adversary).
"""

import fcntl
import json
import os
import re
import signal
import sys

# --------------------------------------------------------------------------
# state
# --------------------------------------------------------------------------


class Store:
    def __init__(self, d):
        self.d = d
        self._lock = None
        self.state = None

    def __enter__(self):
        self._lock = open(os.path.join(self.d, "lock"), "a+")
        fcntl.flock(self._lock, fcntl.LOCK_EX)
        try:
            with open(os.path.join(self.d, "state.json")) as f:
                self.state = json.load(f)
        except FileNotFoundError:
            self.state = new_state()
        return self

    def __exit__(self, et, ev, tb):
        if et is None:
            tmp = os.path.join(self.d, "state.json.tmp")
            with open(tmp, "w") as f:
                json.dump(self.state, f)
            os.replace(tmp, os.path.join(self.d, "state.json"))
        fcntl.flock(self._lock, fcntl.LOCK_UN)
        self._lock.close()
        return False

    def next_seq(self):
        self.state["seq"] += 1
        return self.state["seq"]

    def journal(self, rec):
        rec["seq"] = self.next_seq()
        with open(os.path.join(self.d, "journal.jsonl"), "a") as f:
            f.write(json.dumps(rec) + "\n")
        return rec["seq"]


def new_state(first_id=1000, config=None):
    return {
        "next_id": first_id,
        "seq": 0,
        "jobs": {},
        "config": config or {},
        "faults": [],
        "counts": {},
    }


def new_job(st, sched, name, script, argv, cwd, dep, dep_raw, directives, user="me"):
    jid = str(st["next_id"])
    st["next_id"] += st["config"].get("id_step", 1)
    job = {
        "id": jid,
        "name": name,
        "user": user,
        "sched": sched,
        "script": script,
        "argv": argv,
        "cwd": cwd,
        "dep": dep,
        "dep_raw": dep_raw,
        "directives": directives,
        "phase": "pending",
        "exit": None,
        "code": None,
        "acct": None,
        "held": False,
        "submit_seq": None,
        "start_seq": None,
        "end_seq": None,
    }
    st["jobs"][jid] = job
    return job


# --------------------------------------------------------------------------
# dependency expressions
# --------------------------------------------------------------------------
# Normal form: {"op": "all"|"any", "terms": [{"type": t, "ids": [..]}]}            (slurm)
#              {"op": "hold", "ids": [...], "names": [...]}                         (sge)
#              expression tree ["and", a, b] | ["or", a, b] | ["not", a] |
#                              ["done"|"ended"|"exit"|"started", ref]               (lsf)


class DepError(Exception):
    pass


SLURM_DEP_TYPES = ("after", "afterany", "afterok", "afternotok", "aftercorr", "afterburstbuffer")


def parse_slurm_dep(s):
    if s == "" or s is None:
        raise DepError("empty dependency")
    if "," in s and "?" in s:
        raise DepError("mixed separators")
    op = "any" if "?" in s else "all"
    terms = []
    for part in re.split(r"[,?]", s):
        if part == "singleton":
            terms.append({"type": "singleton", "ids": []})
            continue
        bits = part.split(":")
        if bits[0] not in SLURM_DEP_TYPES or len(bits) < 2:
            raise DepError("bad dependency term %r" % part)
        ids = []
        for b in bits[1:]:
            m = re.fullmatch(r"(\d+)(_\d+)?(\+\d+)?", b)
            if not m:
                raise DepError("bad job id %r" % b)
            ids.append(m.group(1))
        terms.append({"type": bits[0], "ids": ids})
    return {"op": op, "terms": terms}


def _tokenize_lsf(s):
    toks = []
    i = 0
    while i < len(s):
        c = s[i]
        if c.isspace():
            i += 1
        elif s.startswith("&&", i) or s.startswith("||", i):
            toks.append(s[i : i + 2])
            i += 2
        elif c in "()!":
            toks.append(c)
            i += 1
        elif c == '"':
            j = s.find('"', i + 1)
            if j < 0:
                raise DepError("unterminated quote")
            toks.append(("ref", s[i + 1 : j]))
            i = j + 1
        else:
            m = re.match(r"[A-Za-z0-9_.*\[\]-]+", s[i:])
            if not m:
                raise DepError("bad character %r in dependency expression" % c)
            toks.append(("word", m.group(0)))
            i += len(m.group(0))
    return toks


def parse_lsf_dep(s):
    toks = _tokenize_lsf(s)
    pos = [0]

    def peek():
        return toks[pos[0]] if pos[0] < len(toks) else None

    def eat(t=None):
        tok = peek()
        if tok is None or (t is not None and tok != t):
            raise DepError("expected %r at token %d of %r" % (t, pos[0], s))
        pos[0] += 1
        return tok

    def expr():
        left = term()
        while peek() == "||":
            eat()
            left = ["or", left, term()]
        return left

    def term():
        left = factor()
        while peek() == "&&":
            eat()
            left = ["and", left, factor()]
        return left

    def factor():
        tok = peek()
        if tok == "!":
            eat()
            return ["not", factor()]
        if tok == "(":
            eat()
            e = expr()
            eat(")")
            return e
        if isinstance(tok, tuple) and tok[0] == "word":
            eat()
            w = tok[1]
            if peek() == "(":
                if w not in ("done", "ended", "exit", "started", "post_done", "post_err"):
                    raise DepError("unknown condition %r" % w)
                eat("(")
                ref = eat()
                if not isinstance(ref, tuple):
                    raise DepError("bad job reference")
                eat(")")
                return [w, ref[1]]
            # bare job id / name means done(job)
            return ["done", w]
        raise DepError("unexpected token %r in %r" % (tok, s))

    e = expr()
    if pos[0] != len(toks):
        raise DepError("trailing tokens in %r" % s)
    return e


def lsf_refs(e):
    if e[0] in ("and", "or"):
        return lsf_refs(e[1]) + lsf_refs(e[2])
    if e[0] == "not":
        return lsf_refs(e[1])
    return [(e[0], e[1])]


def _lookup(st, ref, sched):
    """jobs a reference (id or name) denotes"""
    if re.fullmatch(r"\d+", ref):
        j = st["jobs"].get(ref)
        return [j] if j is not None and j["sched"] == sched else []
    return [j for j in st["jobs"].values() if j["name"] == ref and j["sched"] == sched]


def _ok(j):
    return j["phase"] == "finished" and j["exit"] == 0


def _ended(j):
    return j["phase"] in ("finished", "cancelled")


def dep_status(st, job):
    """'ready' | 'wait' | 'never' according to the scheduler's documented semantics"""
    d = job["dep"]
    if not d:
        return "ready"
    sched = job["sched"]
    if sched == "slurm":
        res = []
        for t in d["terms"]:
            if t["type"] == "singleton":
                res.append("ready")
                continue
            r = "ready"
            for i in t["ids"]:
                j = st["jobs"].get(i)
                if j is None:
                    continue  # validated at submission
                ty = t["type"]
                if ty == "after":
                    s = "ready" if j["phase"] != "pending" else "wait"
                elif ty == "afterany":
                    s = "ready" if _ended(j) else "wait"
                elif ty in ("afterok", "aftercorr", "afterburstbuffer"):
                    s = "ready" if _ok(j) else ("never" if _ended(j) else "wait")
                elif ty == "afternotok":
                    s = "never" if _ok(j) else ("ready" if _ended(j) else "wait")
                if s == "never":
                    r = "never"
                elif s == "wait" and r != "never":
                    r = "wait"
            res.append(r)
        if d["op"] == "all":
            if "never" in res:
                return "never"
            return "wait" if "wait" in res else "ready"
        if "ready" in res:
            return "ready"
        return "wait" if "wait" in res else "never"
    if sched == "sge":
        for i in d["ids"]:
            j = st["jobs"].get(i)
            if j is not None and j["sched"] == "sge" and not _ended(j):
                return "wait"
        for n in d["names"]:
            for j in st["jobs"].values():
                if j["sched"] == "sge" and j["name"] == n and not _ended(j) and j["id"] != job["id"]:
                    return "wait"
        return "ready"
    if sched == "lsf":

        def ev(e):
            if e[0] == "and":
                a, b = ev(e[1]), ev(e[2])
                if "never" in (a, b):
                    return "never"
                return "wait" if "wait" in (a, b) else "ready"
            if e[0] == "or":
                a, b = ev(e[1]), ev(e[2])
                if "ready" in (a, b):
                    return "ready"
                return "wait" if "wait" in (a, b) else "never"
            if e[0] == "not":
                a = ev(e[1])
                return {"ready": "never", "never": "ready", "wait": "wait"}[a]
            js = _lookup(st, e[1], "lsf")
            if not js:
                return "never"
            out = []
            for j in js:
                if e[0] in ("done", "post_done"):
                    out.append("ready" if _ok(j) else ("never" if _ended(j) else "wait"))
                elif e[0] == "ended":
                    out.append("ready" if _ended(j) else "wait")
                elif e[0] in ("exit", "post_err"):
                    out.append("never" if _ok(j) else ("ready" if _ended(j) else "wait"))
                elif e[0] == "started":
                    out.append("ready" if j["phase"] != "pending" else "wait")
            if "never" in out:
                return "never"
            return "wait" if "wait" in out else "ready"

        return ev(d)
    return "ready"


# --------------------------------------------------------------------------
# directive parsing
# --------------------------------------------------------------------------

SBATCH_SHORT = {
    "J": "job-name",
    "c": "cpus-per-task",
    "N": "nodes",
    "n": "ntasks",
    "t": "time",
    "p": "partition",
    "A": "account",
    "C": "constraint",
    "o": "output",
    "e": "error",
    "d": "dependency",
    "q": "qos",
    "D": "chdir",
}
SBATCH_LONG_VALUE = {
    "job-name",
    "cpus-per-task",
    "nodes",
    "ntasks",
    "time",
    "partition",
    "account",
    "constraint",
    "output",
    "error",
    "dependency",
    "mem",
    "mem-per-cpu",
    "mail-type",
    "mail-user",
    "qos",
    "gres",
    "chdir",
    "export",
}
SBATCH_LONG_FLAG = {"parsable", "hold", "requeue", "no-requeue", "exclusive"}


class ArgError(Exception):
    pass


def parse_sbatch_args(argv):
    """-> list of (canonical long name, value|True)"""
    out = []
    i = 0
    while i < len(argv):
        a = argv[i]
        if a.startswith("--"):
            name, eq, val = a[2:].partition("=")
            if name in SBATCH_LONG_FLAG and not eq:
                out.append((name, True))
            elif name in SBATCH_LONG_VALUE:
                if not eq:
                    i += 1
                    if i >= len(argv):
                        raise ArgError("option '--%s' requires an argument" % name)
                    val = argv[i]
                out.append((name, val))
            else:
                raise ArgError("unrecognized option '--%s'" % name)
        elif a.startswith("-") and len(a) > 1:
            c = a[1]
            if c not in SBATCH_SHORT:
                raise ArgError("invalid option -- '%s'" % c)
            val = a[2:]
            if val == "":
                i += 1
                if i >= len(argv):
                    raise ArgError("option requires an argument -- '%s'" % c)
                val = argv[i]
            out.append((SBATCH_SHORT[c], val))
        else:
            raise ArgError("unexpected argument %r" % a)
        i += 1
    return out


def script_directives(script, prefix):
    """directive lines before the first command, as argument strings"""
    out = []
    for ln in script.split("\n")[0:]:
        s = ln.strip()
        if s.startswith(prefix + " ") or s == prefix:
            out.append(s[len(prefix) :].strip())
        elif s == "" or s.startswith("#"):
            continue
        else:
            break
    return out


def split_directive(s):
    """shell-like split that honours double quotes (no shlex under -S? shlex is stdlib: fine)"""
    import shlex

    return shlex.split(s)


QSUB_VALUE = {"N", "pe", "l", "q", "P", "o", "e", "hold_jid", "w", "S", "M", "m", "wd", "j"}
QSUB_FLAG = {"V", "cwd", "terse", "r"}


def parse_qsub_args(argv):
    out = []
    i = 0
    while i < len(argv):
        a = argv[i]
        if not a.startswith("-"):
            raise ArgError("unexpected argument %r" % a)
        n = a[1:]
        if n in QSUB_FLAG:
            out.append((n, True))
        elif n == "pe":
            if i + 2 >= len(argv):
                raise ArgError("-pe needs two arguments")
            out.append(("pe", argv[i + 1] + " " + argv[i + 2]))
            i += 2
        elif n in QSUB_VALUE:
            i += 1
            if i >= len(argv):
                raise ArgError("option -%s needs an argument" % n)
            out.append((n, argv[i]))
        else:
            raise ArgError("invalid option argument \"%s\"" % a)
        i += 1
    return out


BSUB_VALUE = {"M", "R", "n", "q", "oo", "eo", "o", "e", "J", "w", "W", "P", "G", "cwd"}
BSUB_FLAG = {"K", "H", "r", "x"}


def parse_bsub_args(argv):
    out = []
    i = 0
    while i < len(argv):
        a = argv[i]
        if not a.startswith("-"):
            raise ArgError("unexpected argument %r" % a)
        n = a[1:]
        if n in BSUB_FLAG:
            out.append((n, True))
        elif n in BSUB_VALUE:
            i += 1
            if i >= len(argv):
                raise ArgError("option -%s needs an argument" % n)
            out.append((n, argv[i]))
        else:
            raise ArgError("%s: illegal option" % a)
        i += 1
    return out


# --------------------------------------------------------------------------
# state codes
# --------------------------------------------------------------------------

SLURM_LONG = {
    "BF": "BOOT_FAIL",
    "CA": "CANCELLED",
    "CD": "COMPLETED",
    "CF": "CONFIGURING",
    "CG": "COMPLETING",
    "DL": "DEADLINE",
    "F": "FAILED",
    "NF": "NODE_FAIL",
    "OOM": "OUT_OF_MEMORY",
    "PD": "PENDING",
    "PR": "PREEMPTED",
    "R": "RUNNING",
    "RD": "RESV_DEL_HOLD",
    "RF": "REQUEUE_FED",
    "RH": "REQUEUE_HOLD",
    "RQ": "REQUEUED",
    "RS": "RESIZING",
    "RV": "REVOKED",
    "SI": "SIGNALING",
    "SE": "SPECIAL_EXIT",
    "SO": "STAGE_OUT",
    "ST": "STOPPED",
    "S": "SUSPENDED",
    "TO": "TIMEOUT",
}


def slurm_code(job, view=None):
    v = view or job
    if v.get("code"):
        return v["code"]
    ph = v["phase"]
    if ph == "pending":
        return "PD"
    if ph == "running":
        return "R"
    if ph == "cancelled":
        return "CA"
    return "CD" if v["exit"] == 0 else "F"


def sge_code(job):
    if job.get("code"):
        return job["code"]
    if job["phase"] == "pending":
        return "hqw" if job.get("dep") and (job["dep"]["ids"] or job["dep"]["names"]) else "qw"
    return "r"


def lsf_code(job):
    if job.get("code"):
        return job["code"]
    return {
        "pending": "PEND",
        "running": "RUN",
        "cancelled": "EXIT",
        "finished": "DONE" if job["exit"] == 0 else "EXIT",
    }[job["phase"]]


# --------------------------------------------------------------------------
# commands
# --------------------------------------------------------------------------


class Reply:
    def __init__(self, out="", err="", rc=0):
        self.out, self.err, self.rc = out, err, rc


def _fault_for(st, cmd):
    n = st["counts"].get(cmd, 0) + 1
    st["counts"][cmd] = n
    for f in st["faults"]:
        if f["cmd"] == cmd and f["nth"] == n:
            return f
    return None


def cmd_sbatch(st, argv, stdin, cwd):
    try:
        opts = parse_sbatch_args(argv)
        dirs = []
        for d in script_directives(stdin, "#SBATCH"):
            dirs.extend(parse_sbatch_args(split_directive(d)))
    except (ArgError, ValueError) as e:
        return Reply(err="sbatch: %s\nTry \"sbatch --help\" for more information\n" % e, rc=1), None
    if not stdin.startswith("#!"):
        return Reply(err="sbatch: error: This does not look like a batch script.  The first\nsbatch: error: line must start with #! followed by the path to an interpreter.\n", rc=1), None
    merged = {}
    multi = {}
    for k, v in dirs + opts:  # command line wins over script
        merged[k] = v
    for k, v in dirs:
        multi.setdefault(k, []).append(v)
    dep = None
    dep_raw = merged.get("dependency")
    if dep_raw is not None:
        try:
            dep = parse_slurm_dep(dep_raw)
        except DepError:
            return Reply(err="sbatch: error: Batch job submission failed: Job dependency problem\n", rc=1), None
        for t in dep["terms"]:
            for i in t["ids"]:
                j = st["jobs"].get(i)
                if j is None or j["sched"] != "slurm" or j.get("purged"):
                    # unknown to the controller (never existed, or purged after MinJobAge) - whatever accounting says
                    return Reply(err="sbatch: error: Batch job submission failed: Job dependency problem\n", rc=1), None
    name = merged.get("job-name", "sbatch")
    job = new_job(st, "slurm", name, stdin, argv, cwd, dep, dep_raw, {"opts": dirs + opts, "multi": multi})
    if merged.get("hold"):
        job["held"] = True
    if merged.get("parsable"):
        return Reply(out="%s\n" % job["id"]), job
    return Reply(out="Submitted batch job %s\n" % job["id"]), job


def _fmt_squeue(fmt, job):
    code = slurm_code(job)
    rep = {"%i": job["id"], "%t": code, "%T": SLURM_LONG.get(code, code), "%j": job["name"], "%u": job["user"]}
    out = ""
    i = 0
    while i < len(fmt):
        if fmt[i] == "%":
            m = re.match(r"%\.?\d*([a-zA-Z])", fmt[i:])
            if m:
                key = "%" + m.group(1)
                if key not in rep:
                    raise ArgError("Invalid job format specification: %s" % m.group(1))
                out += rep[key]
                i += len(m.group(0))
                continue
        out += fmt[i]
        i += 1
    return out


def cmd_squeue(st, argv, stdin, cwd):
    fmt = "%.18i %.9P %.8j %.8u %.2t %.10M %.6D %R"
    noheader = False
    users = None
    i = 0
    while i < len(argv):
        a = argv[i]
        if a in ("--noheader", "-h"):
            noheader = True
        elif a in ("--all", "-a"):
            pass
        elif a.startswith("--format="):
            fmt = a[len("--format=") :]
        elif a in ("-o", "--format"):
            i += 1
            fmt = argv[i]
        elif a == "--me":
            users = ["me"]
        elif a.startswith("--user=") or a == "-u":
            if a == "-u":
                i += 1
                users = argv[i].split(",")
            else:
                users = a.split("=", 1)[1].split(",")
        else:
            return Reply(err="squeue: unrecognized option '%s'\n" % a, rc=1)
        i += 1
    lines = []
    if not noheader:
        lines.append("JOBID;ST" if fmt == "%i;%t" else "HEADER")
    linger = st["config"].get("squeue_linger", False)
    for j in sorted(st["jobs"].values(), key=lambda j: int(j["id"])):
        if j["sched"] != "slurm":
            continue
        if users is not None and j["user"] not in users:
            continue
        show = j["phase"] in ("pending", "running") or j.get("in_queue")
        if not show and linger and j.get("linger"):
            show = True
        if show:
            try:
                lines.append(_fmt_squeue(fmt, j))
            except ArgError as e:
                return Reply(err="squeue: error: %s\n" % e, rc=1)
    return Reply(out="".join(x + "\n" for x in lines))


def cmd_sacct(st, argv, stdin, cwd):
    noheader = parsable2 = alloc = False
    fields = ["jobid", "jobname", "state"]
    jobs = None
    i = 0
    while i < len(argv):
        a = argv[i]
        if a in ("--noheader", "-n"):
            noheader = True
        elif a in ("--parsable2", "-P"):
            parsable2 = True
        elif a in ("--allocations", "-X"):
            alloc = True
        elif a.startswith("--format="):
            fields = a.split("=", 1)[1].lower().split(",")
        elif a in ("--format", "-o"):
            i += 1
            fields = argv[i].lower().split(",")
        elif a.startswith("--jobs="):
            jobs = a.split("=", 1)[1]
        elif a in ("--jobs", "-j"):
            i += 1
            if i >= len(argv):
                return Reply(err="sacct: option requires an argument -- 'j'\n", rc=1)
            jobs = argv[i]
        else:
            return Reply(err="sacct: unrecognized option '%s'\n" % a, rc=1)
        i += 1
    if st["config"].get("sacct_disabled"):
        return Reply(err="sacct: error: Slurm accounting storage is disabled\n", rc=1)
    if jobs is None:
        ids = [j["id"] for j in st["jobs"].values() if j["user"] == "me" and j["sched"] == "slurm"]
    else:
        ids = []
        for tok in jobs.split(","):
            if not re.fullmatch(r"\d+(\.\w+)?", tok):
                return Reply(err="sacct: error: Invalid job id: %s\n" % tok, rc=1)
            ids.append(tok.split(".")[0])
    sep = "|" if parsable2 else " "
    lines = []
    if not noheader:
        lines.append(sep.join(f.capitalize() for f in fields))
    for i_ in ids:
        j = st["jobs"].get(i_)
        if j is None or j["sched"] != "slurm":
            continue
        view = j.get("acct")
        if view is None:
            continue  # no accounting record (yet)
        code = slurm_code(j, view)
        long = SLURM_LONG.get(code, code)
        if code == "CA" and view.get("by"):
            long = "CANCELLED by %s" % view["by"]
        vals = {"jobid": j["id"], "state": long, "jobname": j["name"], "exitcode": "%s:0" % (view.get("exit") or 0)}
        try:
            lines.append(sep.join(vals[f] for f in fields))
        except KeyError as e:
            return Reply(err="sacct: error: Invalid field requested: %s\n" % e, rc=1)
        if not alloc and view["phase"] != "pending":
            v2 = dict(vals, jobid=j["id"] + ".batch", jobname="batch")
            lines.append(sep.join(v2[f] for f in fields))
    return Reply(out="".join(x + "\n" for x in lines))


def _cancel(st, store, j, by="me"):
    j["phase"] = "cancelled"
    j["end_seq"] = store.journal({"kind": "event", "event": "cancel", "id": j["id"], "name": j["name"]})
    if not st["config"].get("acct_lag"):
        j["acct"] = {"phase": "cancelled", "exit": None, "code": None, "by": "1000" if (st["config"].get("cancel_by") or int(j["id"]) % 2 == 0) else None}


def cmd_scancel(st, argv, stdin, cwd, store):
    verbose = False
    ids = []
    for a in argv:
        if a in ("--verbose", "-v"):
            verbose = True
        elif a.startswith("-"):
            return Reply(err="scancel: unrecognized option '%s'\n" % a, rc=1)
        else:
            ids.append(a)
    err = ""
    for i in ids:
        if not re.fullmatch(r"\d+", i):
            err += "scancel: error: Invalid job id %s\n" % i
            continue
        j = st["jobs"].get(i)
        if j is None or j["sched"] != "slurm" or j["phase"] not in ("pending", "running"):
            if verbose:
                # scancel announces the attempt first and reports the controller's refusal afterwards
                err += "scancel: Terminating job %s\n" % i
                err += "scancel: error: Kill job error on job id %s: Invalid job id specified\n" % i
            continue
        if j["user"] != "me":
            if verbose:
                err += "scancel: Terminating job %s\n" % i
            err += "scancel: error: Kill job error on job id %s: Access/permission denied\n" % i
            continue
        _cancel(st, store, j)
        if st["config"].get("scancel_lingers"):
            # the controller keeps a cancelled job (state CA) in the queue listing for a while (MinJobAge), while the
            # accounting database may still show what it knew before
            j["in_queue"] = True
        if verbose:
            err += "scancel: Terminating job %s\n" % i
    # the quirk gwf's own comment describes: exit status 0 even on failure
    return Reply(err=err, rc=0)


def cmd_qsub(st, argv, stdin, cwd):
    try:
        opts = parse_qsub_args(argv)
        dirs = []
        for d in script_directives(stdin, "#$"):
            dirs.extend(parse_qsub_args(split_directive(d)))
    except (ArgError, ValueError) as e:
        return Reply(err="qsub: %s\n" % e, rc=1), None
    merged = {}
    multi = {}
    for k, v in dirs + opts:
        merged[k] = v
    for k, v in dirs:
        multi.setdefault(k, []).append(v)
    dep = None
    dep_raw = merged.get("hold_jid")
    if dep_raw is not None:
        ids, names = [], []
        for tok in dep_raw.split(","):
            if re.fullmatch(r"\d+", tok):
                ids.append(tok)
            else:
                names.append(tok)  # job name (pattern); unknown names hold nothing
        dep = {"op": "hold", "ids": ids, "names": names}
    name = merged.get("N", "STDIN")
    if not re.fullmatch(r"[^\s/:@\\*?]+", name) or name[0].isdigit():
        return Reply(err="Unable to run job: denied: \"%s\" is not a valid object name.\nExiting.\n" % name, rc=1), None
    job = new_job(st, "sge", name, stdin, argv, cwd, dep, dep_raw, {"opts": dirs + opts, "multi": multi})
    if merged.get("terse"):
        return Reply(out="%s\n" % job["id"]), job
    return Reply(out='Your job %s ("%s") has been submitted\n' % (job["id"], name)), job


def cmd_qstat(st, argv, stdin, cwd):
    full = xml = False
    users = ["me"]
    i = 0
    while i < len(argv):
        a = argv[i]
        if a == "-f":
            full = True
        elif a == "-xml":
            xml = True
        elif a == "-u":
            i += 1
            users = None if argv[i] in ("*", '"*"') else argv[i].split(",")
        else:
            return Reply(err="qstat: invalid option argument \"%s\"\n" % a, rc=1)
        i += 1
    if st["config"].get("qstat_all_users"):
        users = None
    jobs = [
        j
        for j in sorted(st["jobs"].values(), key=lambda j: int(j["id"]))
        if j["sched"] == "sge" and (j["phase"] in ("pending", "running") or j.get("in_queue")) and (users is None or j["user"] in users)
    ]
    if not xml:
        out = "".join("%7s 0.5 %-10s %-8s %-5s\n" % (j["id"], j["name"][:10], j["user"], sge_code(j)) for j in jobs)
        return Reply(out=out)

    def esc(s):
        return s.replace("&", "&amp;").replace("<", "&lt;").replace(">", "&gt;")

    def jl(j):
        st_attr = "running" if j["phase"] == "running" else "pending"
        return (
            '    <job_list state="%s">\n      <JB_job_number>%s</JB_job_number>\n      <JAT_prio>0.55500</JAT_prio>\n'
            "      <JB_name>%s</JB_name>\n      <JB_owner>%s</JB_owner>\n      <state>%s</state>\n      <slots>1</slots>\n    </job_list>\n"
            % (st_attr, j["id"], esc(j["name"]), j["user"], sge_code(j))
        )

    run = [j for j in jobs if j["phase"] == "running" or j.get("code") in ("dr", "dt")]
    pend = [j for j in jobs if j not in run]
    out = "<?xml version='1.0'?>\n<job_info  xmlns:xsd=\"http://www.w3.org/2001/XMLSchema\">\n  <queue_info>\n"
    if full:
        out += "    <Queue-List>\n      <name>all.q@node1</name>\n      <qtype>BIP</qtype>\n      <slots_used>%d</slots_used>\n      <slots_total>64</slots_total>\n" % len(run)
        out += "".join(jl(j).replace("\n    ", "\n      ").replace("    <job_list", "      <job_list", 1) for j in run)
        out += "    </Queue-List>\n"
    else:
        out += "".join(jl(j) for j in run)
    out += "  </queue_info>\n  <job_info>\n"
    out += "".join(jl(j) for j in pend)
    out += "  </job_info>\n</job_info>\n"
    return Reply(out=out)


def cmd_qdel(st, argv, stdin, cwd, store):
    out = err = ""
    rc = 0
    if not argv:
        return Reply(err="qdel: missing job id\n", rc=1)
    for a in argv:
        if a.startswith("-") and a not in ("-f",):
            return Reply(err="qdel: invalid option argument \"%s\"\n" % a, rc=1)
    for i in [a for a in argv if not a.startswith("-")]:
        js = []
        for tok in i.split(","):
            if re.fullmatch(r"\d+", tok):
                j = st["jobs"].get(tok)
                js.append((tok, j if j is not None and j["sched"] == "sge" else None))
            else:
                m = [j for j in st["jobs"].values() if j["sched"] == "sge" and j["name"] == tok and j["phase"] in ("pending", "running")]
                if not m:
                    js.append((tok, None))
                js.extend((tok, j) for j in m)
        for tok, j in js:
            if j is None or j["phase"] not in ("pending", "running"):
                err += 'denied: job "%s" does not exist\n' % tok
                rc = 1
            elif j["user"] != "me":
                err += "me - you do not have the necessary privileges to delete the job \"%s\"\n" % tok
                rc = 1
            else:
                was_running = j["phase"] == "running"
                _cancel(st, store, j)
                if was_running and st["config"].get("qdel_lingers"):
                    # deletion registered, the job is still listed while the execution host tears it down
                    j["in_queue"] = True
                    j["code"] = "dr"
                out += "me has registered the job %s for deletion\n" % j["id"] if was_running else "me has deleted job %s\n" % j["id"]
    return Reply(out=out, err=err, rc=rc)


def cmd_bsub(st, argv, stdin, cwd):
    try:
        opts = parse_bsub_args(argv)
        dirs = []
        for d in script_directives(stdin, "#BSUB"):
            dirs.extend(parse_bsub_args(split_directive(d)))
    except (ArgError, ValueError) as e:
        return Reply(err="bsub: %s\n" % e, rc=255), None
    merged = {}
    multi = {}
    for k, v in dirs + opts:
        merged[k] = v
    for k, v in dirs:
        multi.setdefault(k, []).append(v)
    dep = None
    dep_raw = merged.get("w")
    if dep_raw is not None:
        try:
            dep = parse_lsf_dep(dep_raw)
        except DepError as e:
            return Reply(err="%s: Bad dependency expression. Job not submitted.\n" % dep_raw, rc=255), None
        for kind, ref in lsf_refs(dep):
            if not _lookup(st, ref, "lsf"):
                return Reply(err="%s: Dependency condition invalid or never satisfied. Job not submitted.\n" % ref, rc=255), None
    q = merged.get("q", "normal")
    if not re.fullmatch(r"[A-Za-z0-9_.-]+( [A-Za-z0-9_.-]+)*", str(q)):
        return Reply(err="%s: No such queue. Job not submitted.\n" % q, rc=255), None
    for k in ("n",):
        if k in merged and not re.fullmatch(r"\d+(,\d+)?", str(merged[k])):
            return Reply(err="%s: Bad processor count. Job not submitted.\n" % merged[k], rc=255), None
    if "M" in merged and not re.fullmatch(r"\d+(\.\d+)?\s*([KMGTPEZ]B?)?", str(merged["M"]), re.I):
        return Reply(err="%s: Bad memory limit. Job not submitted.\n" % merged["M"], rc=255), None
    name = merged.get("J", "")
    job = new_job(st, "lsf", name, stdin, argv, cwd, dep, dep_raw, {"opts": dirs + opts, "multi": multi})
    return Reply(out="Job <%s> is submitted to queue <%s>.\n" % (job["id"], q)), job


def cmd_bjobs(st, argv, stdin, cwd):
    noheader = False
    fmt = None
    ids = []
    i = 0
    while i < len(argv):
        a = argv[i]
        if a == "-noheader":
            noheader = True
        elif a == "-o":
            i += 1
            fmt = argv[i]
        elif a in ("-a", "-w"):
            pass
        elif a.startswith("-"):
            return Reply(err="bjobs: illegal option -- %s\n" % a[1:], rc=255)
        else:
            ids.append(a)
        i += 1
    out = err = ""
    rc = 0
    if fmt is None:
        fmt = "jobid user stat queue job_name"
    fields = fmt.lower().split()
    for f in fields:
        if f not in ("jobid", "stat", "user", "queue", "job_name", "name", "id"):
            return Reply(err="bjobs: output format error: unknown field %s\n" % f, rc=255)
    if not noheader:
        out += " ".join(f.upper() for f in fields) + "\n"
    if not ids:
        js = [j for j in st["jobs"].values() if j["sched"] == "lsf" and j["user"] == "me" and j["phase"] in ("pending", "running")]
        if not js:
            err += "No unfinished job found\n"
    else:
        js = []
        for i_ in ids:
            if not re.fullmatch(r"\d+", i_):
                err += "%s: Illegal job ID.\n" % i_
                rc = 255
                continue
            j = st["jobs"].get(i_)
            if j is None or j["sched"] != "lsf" or j.get("purged"):
                err += "Job <%s> is not found\n" % i_
                if st["config"].get("bjobs_notfound_rc"):
                    rc = st["config"]["bjobs_notfound_rc"]
                continue
            js.append(j)
    for j in js:
        vals = {"jobid": j["id"], "id": j["id"], "stat": lsf_code(j), "user": j["user"], "queue": "normal", "job_name": j["name"], "name": j["name"]}
        out += " ".join(vals[f] for f in fields) + "\n"
    return Reply(out=out, err=err, rc=rc)


def cmd_bkill(st, argv, stdin, cwd, store):
    out = err = ""
    rc = 0
    for i in argv:
        if i.startswith("-"):
            return Reply(err="bkill: illegal option -- %s\n" % i[1:], rc=255)
        if not re.fullmatch(r"\d+", i):
            err += "%s: Illegal job ID.\n" % i
            rc = 255
            continue
        j = st["jobs"].get(i)
        if j is None or j["sched"] != "lsf":
            err += "Job <%s>: No matching job found\n" % i
            rc = 255
        elif j["phase"] not in ("pending", "running"):
            err += "Job <%s>: Job has already finished\n" % i
            rc = 255
        elif j["user"] != "me":
            err += "Job <%s>: User permission denied\n" % i
            rc = 255
        else:
            _cancel(st, store, j)
            out += "Job <%s> is being terminated\n" % i
    return Reply(out=out, err=err, rc=rc)


SUBMITTERS = {"sbatch": cmd_sbatch, "qsub": cmd_qsub, "bsub": cmd_bsub}
QUERIES = {"squeue": cmd_squeue, "sacct": cmd_sacct, "qstat": cmd_qstat, "bjobs": cmd_bjobs}
CANCELLERS = {"scancel": cmd_scancel, "qdel": cmd_qdel, "bkill": cmd_bkill}


def main():
    cmd = os.path.basename(sys.argv[0])
    argv = sys.argv[1:]
    d = os.environ.get("SIMCLUSTER_DIR")
    if not d:
        sys.stderr.write("%s: error: SIMCLUSTER_DIR not set\n" % cmd)
        sys.exit(3)
    if cmd in ("sinfo", "qconf", "qhost", "lsid", "bqueues"):
        sys.exit(0)
    stdin = ""
    if cmd in SUBMITTERS:
        stdin = sys.stdin.read()
    kill_parent = False
    with Store(d) as store:
        st = store.state
        fault = _fault_for(st, cmd)
        rep = None
        job = None
        kind = fault["kind"] if fault else None
        if kind == "kill_parent_before":
            store.journal({"kind": "fault", "cmd": cmd, "fault": kind, "argv": argv})
            kill_parent = True
            rep = Reply(rc=1)
        elif kind == "exit1":
            rep = Reply(err="%s: Socket timed out on send/recv operation\n" % cmd, rc=1)
        elif kind == "exit1_silent":
            rep = Reply(rc=1)  # fails without a word (killed by a signal, complaint written elsewhere)
        elif kind == "exit1_stdout":
            rep = Reply(out="%s: denied: request refused (injected)\n" % cmd, rc=1)  # complaint on stdout, like qdel
        elif kind == "stderr_error":
            rep = Reply(err="%s: error: Unable to contact controller (injected)\n" % cmd, rc=0)
        elif kind == "garbage":
            rep = Reply(out="@@garbage@@ \x01\n", rc=0)
        else:
            if cmd in SUBMITTERS:
                rep, job = SUBMITTERS[cmd](st, argv, stdin, os.getcwd())
            elif cmd in QUERIES:
                rep = QUERIES[cmd](st, argv, stdin, os.getcwd())
            elif cmd in CANCELLERS:
                rep = CANCELLERS[cmd](st, argv, stdin, os.getcwd(), store)
            else:
                rep = Reply(err="%s: unknown simulated command\n" % cmd, rc=127)
            if kind == "kill_parent_after":
                kill_parent = True
        seq = store.journal(
            {
                "kind": "cmd",
                "cmd": cmd,
                "argv": argv,
                "stdin": stdin if cmd in SUBMITTERS else "",
                "stdout": rep.out,
                "stderr": rep.err,
                "rc": rep.rc,
                "cwd": os.getcwd(),
                "ppid": os.getppid(),
                "job": job["id"] if job else None,
                "fault": kind,
            }
        )
        if job is not None:
            job["submit_seq"] = seq
            if not st["config"].get("acct_lag"):
                job["acct"] = {"phase": "pending", "exit": None, "code": None}
    if kill_parent:
        try:
            os.kill(os.getppid(), signal.SIGKILL)
        except OSError:
            pass
        if kind == "kill_parent_before":
            sys.exit(1)
    sys.stdout.write(rep.out)
    sys.stderr.write(rep.err)
    sys.stdout.flush()
    sys.exit(rep.rc)
