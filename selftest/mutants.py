"""Deliberately broken variants of gwf used to show that each monitor fires.
Each mutant: id, props (checks expected to report a VIOLATION), edits [(file under src/gwf, old, new)], note."""

M = []


def mut(id, props, edits, note):
    M.append({"id": id, "props": props, "edits": edits, "note": note})


S = "scheduling.py"
# ---------------------------------------------------------------- C01
mut("c01-ge", ["C01"], [(S, "    if youngest_in_ts > oldest_out_ts:", "    if youngest_in_ts >= oldest_out_ts:")], "staleness on ties")
mut("c01-min-in", ["C01"], [(S, "    youngest_in_ts, _ = max(\n", "    youngest_in_ts, _ = min(\n")], "oldest input instead of youngest")
mut("c01-max-out", ["C01"], [(S, "    oldest_out_ts, _ = min(\n", "    oldest_out_ts, _ = max(\n")], "youngest output instead of oldest")
mut("c01-noout", ["C01", "C06"], [(S, "    if not target.flattened_outputs():\n", "    if False:\n")], "no-output rule dropped")
mut("c01-first-out-only", ["C01"], [(S, "    for path in target.flattened_outputs():\n        if not fs.exists(path):", "    for path in target.flattened_outputs()[:1]:\n        if not fs.exists(path):")], "only first output checked for existence")
mut("c01-container-truthiness", ["C01"], [(S, "    if not target.flattened_outputs():\n", "    if not target.outputs:\n")], "the original defect: truthy empty container")
# ---------------------------------------------------------------- C02
mut("c02-no-failed", ["C02", "C05"], [(S, "    Status.SHOULDRUN,\n    Status.FAILED,\n", "    Status.SHOULDRUN,\n")], "FAILED removed from SUBMITTED_STATES: dependents of a resubmitted failed job lose the prerequisite")
mut("c02-no-shouldrun", ["C02", "C07"], [(S, "    Status.RUNNING,\n    Status.SHOULDRUN,\n", "    Status.RUNNING,\n")], "SHOULDRUN removed from SUBMITTED_STATES")
mut("c02-resubmit-submitted", ["C02", "C05", "C09"], [(S, "        if status_func(target) == BackendStatus.SUBMITTED:\n            logger.debug(\"Target %s is already submitted\", target)\n            return Status.SUBMITTED", "        if False:\n            return Status.SUBMITTED")], "pending targets resubmitted")
mut("c02-endpoints-always", ["C02", "C05"], [("plugins/run.py", "        endpoints = filter_names(graph, targets) if targets else graph.endpoints()", "        endpoints = graph.endpoints()")], "patterns ignored by run")
mut("c02-stale-dep-id", ["C02", "C07"], [("backends/base.py", "        dependency_ids = [self._tracked_jobs[dep.name] for dep in dependencies]\n        job_id = self.ops.submit_target(target, dependency_ids)", "        job_id = self.ops.submit_target(target, [self._initial.get(dep.name, self._tracked_jobs[dep.name]) for dep in dependencies])"), ("backends/base.py", "    def status(self, target):\n", "    @property\n    def _initial(self):\n        if not hasattr(TrackingBackend, '_ini'):\n            TrackingBackend._ini = dict(self._tracked_jobs)\n        return TrackingBackend._ini\n\n    def status(self, target):\n")], "prerequisite ids captured before the dependency is resubmitted (2.0.2 regression)")
# ---------------------------------------------------------------- C03
mut("c03-no-abs-norm", ["C03", "C15"], [("core.py", "        return os.path.normpath(path)\n", "        return path\n")], "the original defect: absolute paths not normalised")
mut("c03-join-only", ["C03"], [("core.py", "    return os.path.abspath(os.path.join(working_dir, path))", "    return os.path.join(working_dir, path)")], "relative paths joined, not normalised")
mut("c03-endpoints-deps", ["C03", "C15"], [("core.py", "        return set(self.targets.values()) - set(self.dependents.keys())", "        return set(self.targets.values()) - set(self.dependencies.keys())")], "endpoints computed from dependencies")
mut("c03-info-pretty-unflattened", ["C03"], [("plugins/info.py", "        print_list(_flatten(target.outputs), as_filename=True)", "        print_list(target.outputs, as_filename=True)")], "original defect (42b51c9): pretty info iterates the raw outputs container")
mut("c03-info-pretty-dependencies", ["C03"], [("plugins/info.py", "        print_list([target.name for target in graph.dependents[target]])", "        print_list([target.name for target in graph.dependencies[target]])")], "pretty info prints dependencies under Dependents")
# ---------------------------------------------------------------- C04
mut("c04-cycle-first-only", ["C04"], [("core.py", "    for node in nodes:\n        if state[node] == fresh:\n            visitor(node)", "    for node in list(nodes)[:1]:\n        if state[node] == fresh:\n            visitor(node)")], "cycle check only from the first target")
mut("c04-no-back-edge", ["C04"], [("core.py", "                if state[dep] == started:\n                    raise CircularDependencyError(", "                if False:\n                    raise CircularDependencyError(")], "back edges ignored: cycles accepted")
mut("c04-recursive-again", ["C04"], [("scheduling.py", "            if pending:\n                stack.extend(reversed(pending))\n            else:", "            if False:\n                stack.extend(reversed(pending))\n            else:")], "scheduling recurses again through _schedule: deep chains crash")
mut("c04-no-unresolved", ["C04"], [("core.py", "                if path in unresolved and not fs.exists(path):", "                if False:")], "unresolved check skipped")
mut("c04-dup-unnormalised", ["C04", "C03"], [("core.py", "                for path in target.flattened_outputs():\n                    if path in provides:", "                for path in _flatten(target.outputs):\n                    if path in provides:")], "duplicate check / provides on raw spellings")
mut("c04-side-effect", ["C04"], [("plugins/run.py", "    fs = CachedFilesystem()\n    graph = Graph.from_targets(workflow.targets, fs)\n", "    fs = CachedFilesystem()\n    open(os.path.join(ctx.working_dir, 'run.marker'), 'w').close()\n    graph = Graph.from_targets(workflow.targets, fs)\n")], "run leaves a file behind before validation")
# ---------------------------------------------------------------- C05
mut("c05-dryrun-cleans", ["C05"], [("plugins/run.py", "    if ctx.config.get(\"clean_logs\") and not dry_run:", "    if ctx.config.get(\"clean_logs\"):")], "dry-run deletes logs")
mut("c05-dryrun-hashes", ["C05", "C18"], [(S, "def _submit_dryrun(target, dependencies, backend, spec_hashes):\n    logger.info(\"Would submit %s\", target)", "def _submit_dryrun(target, dependencies, backend, spec_hashes):\n    logger.info(\"Would submit %s\", target)\n    spec_hashes.update(target)")], "dry-run records spec hashes")
mut("c05-endpoint-filter", ["C05"], [("plugins/status.py", "            filters.append(EndpointFilter(endpoints=graph.endpoints()))", "            filters.append(EndpointFilter(endpoints=graph.endpoints(), mode=\"exclude\"))")], "--endpoints shows non-endpoints")
mut("c05-summary-unfiltered", ["C05"], [("plugins/status.py", "        target_states = {k: v for k, v in target_states.items() if k in matches}\n", "        target_states = {k: v for k, v in target_states.items() if k in matches or format == 'summary'}\n")], "summary ignores filters")
# ---------------------------------------------------------------- C06
mut("c06-backend-completed-final", ["C06", "C08"], [(S, "        if submitted_deps:\n            logger.debug(", "        if status_func(target) == BackendStatus.COMPLETED:\n            return Status.COMPLETED\n\n        if submitted_deps:\n            logger.debug(")], "backend COMPLETED taken as final without looking at files")
# ---------------------------------------------------------------- C07
mut("c07-afterany", ["C07"], [("backends/slurm.py", "--dependency=afterok:{}", "--dependency=afterany:{}")], "afterany instead of afterok")
mut("c07-comma", ["C07"], [("backends/slurm.py", "\":\".join(dependencies)", "\",\".join(dependencies)")], "ids joined with comma")
mut("c07-lsf-or", ["C07"], [("backends/lsf.py", "\" && \".join(", "\" || \".join(")], "LSF conjunction turned into disjunction")
mut("c07-lsf-ended", ["C07"], [("backends/lsf.py", "f\"done({job_id})\"", "f\"ended({job_id})\"")], "LSF ended() instead of done()")
mut("c07-single-dep-dropped", ["C07", "C02"], [("backends/slurm.py", "        if dependencies:\n            args.append(\"--dependency", "        if len(dependencies) > 1:\n            args.append(\"--dependency")], "flag dropped when there is exactly one dependency")
mut("c07-local-nodeps", ["C07"], [("backends/local.py", "            deps=deps or [],\n        )\n        kind, response = self.recv()", "            deps=[],\n        )\n        kind, response = self.recv()")], "local client sends no deps")
mut("c07-sge-unstripped", ["C07", "C02", "C08"], [("backends/sge.py", "        job_id = call(\"qsub\", *args, input=script).strip()\n        if not re.fullmatch(r\"\\d+\", job_id):", "        job_id = call(\"qsub\", *args, input=script)\n        if not re.fullmatch(r\"\\d+\\n?\", job_id):")], "the original defect: SGE id with newline")
# ---------------------------------------------------------------- C08
mut("c08-sacct-over-squeue", ["C08"], [("backends/slurm.py", "        job_states = {}\n        if self.accounting_enabled:\n            job_states.update(self.get_job_states_from_sacct_batched(tracked_jobs))\n        job_states.update(self.get_job_states_from_squeue(tracked_jobs))", "        job_states = {}\n        job_states.update(self.get_job_states_from_squeue(tracked_jobs))\n        if self.accounting_enabled:\n            job_states.update(self.get_job_states_from_sacct_batched(tracked_jobs))")], "accounting overrides the live queue")
mut("c08-sacct-always", ["C08", "C20"], [("backends/slurm.py", "        if self.accounting_enabled:\n            job_states.update(", "        if True:\n            job_states.update(")], "sacct consulted when disabled")
mut("c08-batch-off-by-one", ["C08"], [("backends/slurm.py", "            batch = tracked_jobs[idx : idx + batch_size]", "            batch = tracked_jobs[idx : idx + batch_size - 1]")], "batch slicing off by one")
mut("c08-oom-unknown", ["C08"], [("backends/slurm.py", "    \"OOM\": BackendStatus.FAILED,", "    \"OOM\": BackendStatus.UNKNOWN,")], "OOM not a failure")
mut("c08-name-prefix", ["C08"], [("backends/slurm.py", "            if job_id in tracked_jobs:\n                job_states[job_id] = SLURM_JOB_STATES[state]", "            for tj in tracked_jobs:\n                if tj.startswith(job_id):\n                    job_states[tj] = SLURM_JOB_STATES[state]")], "queue ids matched by prefix")
mut("c08-lsf-psusp-failed", ["C08"], [("backends/lsf.py", "    \"PSUSP\": BackendStatus.SUBMITTED,", "    \"PSUSP\": BackendStatus.FAILED,")], "original defect: PSUSP failed")
mut("c08-local-killed-completed", ["C08"], [("backends/local.py", "    LocalStatus.KILLED: BackendStatus.FAILED,", "    LocalStatus.KILLED: BackendStatus.COMPLETED,")], "time-limit kill reported as completed")
mut("c08-local-ids-from-zero", ["C08"], [("backends/local.py", "    return itertools.count(int(time.time() * 1000))", "    return itertools.count()")], "original defect: a restarted pool reuses ids of the previous instance")
# ---------------------------------------------------------------- C09
mut("c09-hash-before-submit", ["C09", "C18"], [(S, "    backend.submit(target, dependencies)\n    spec_hashes.update(target)", "    spec_hashes.update(target)\n    backend.submit(target, dependencies)")], "spec hash recorded before the submission is accepted")
mut("c09-track-before-call", ["C09"], [("backends/base.py", "        job_id = self.ops.submit_target(target, dependency_ids)\n        self._tracked_jobs[target.name] = job_id", "        self._tracked_jobs[target.name] = \"pending\"\n        job_id = self.ops.submit_target(target, dependency_ids)\n        self._tracked_jobs[target.name] = job_id")], "tracked entry written before the scheduler call returns")
mut("c09-no-close-on-exc", ["C09"], [("backends/base.py", "    def __exit__(self, *exc):\n        self.close()", "    def __exit__(self, *exc):\n        if exc[0] is None:\n            self.close()")], "state not persisted when an exception is in flight")
mut("c09-ignore-stderr-error", ["C09", "C17"], [("backends/utils.py", "    if proc.returncode != 0 or \"error:\" in stderr:", "    if proc.returncode != 0:")], "call() ignores the error: convention")
mut("c09-nonatomic", ["C09"], [("backends/base.py", "        tmp_path = self._get_state_path() + \".tmp\"\n", "        tmp_path = self._get_state_path()\n"), ("backends/base.py", "        os.replace(tmp_path, self._get_state_path())\n", "")], "original defect: non-atomic tracked file write")
mut("c09-no-id-validation", ["C09"], [("backends/slurm.py", "        if not re.fullmatch(r\"\\d+(;\\S*)?\", job_id):", "        if False:")], "original defect: garbage accepted as job id")
# ---------------------------------------------------------------- C10
mut("c10-no-set-e", ["C10"], [("backends/slurm.py", "        out.append(\"set -e\")\n", "")], "set -e dropped")
mut("c10-spec-whitespace", ["C10"], [("backends/lsf.py", "        out.append(ensure_trailing_newline(target.spec))", "        out.append(ensure_trailing_newline(\" \".join(target.spec.split(\"  \"))))")], "spec not verbatim: runs of spaces collapsed")
mut("c10-defaults-win", ["C10"], [(S, "        new_options = dict(backend.target_defaults)\n    new_options.update(target.options)", "        new_options = dict(target.options)\n    new_options.update({k: v for k, v in backend.target_defaults.items() if v is not None})")], "backend defaults override target options")
mut("c10-none-string", ["C10"], [(S, "        elif option_value is None:\n            del new_options[option_name]", "        elif option_value is None:\n            pass")], "None rendered as the string None")
mut("c10-swap-logs", ["C10"], [("backends/sge.py", "                \"-o \",\n                os.path.join(self.working_dir, \".gwf\", \"logs\", target.name + \".stdout\"),", "                \"-o \",\n                os.path.join(self.working_dir, \".gwf\", \"logs\", target.name + \".stderr\"),"), ("backends/sge.py", "                \"-e \",\n                os.path.join(self.working_dir, \".gwf\", \"logs\", target.name + \".stderr\"),", "                \"-e \",\n                os.path.join(self.working_dir, \".gwf\", \"logs\", target.name + \".stdout\"),")], "stdout/stderr swapped (SGE)")
mut("c10-cleanlogs-prefix", ["C10"], [("plugins/run.py", "    for log_name in log_files.difference(target_set):", "    for log_name in [l for l in log_files if not any(l == t for t in target_set if len(t) > 4)]:")], "clean_logs deletes logs of short-named current targets")
mut("c10-template-over-kw", ["C10"], [("workflow.py", "            options=chain(self.defaults, template.options, options),", "            options=chain(self.defaults, options, template.options),")], "template options override keyword options")
mut("c10-unquoted-cd", ["C10"], [("backends/slurm.py", "        out.append(\"cd {}\".format(shlex.quote(target.working_dir)))", "        out.append(\"cd {}\".format(target.working_dir))")], "original defect: unquoted cd")
mut("c10-sge-total-memory", ["C10"], [("backends/sge.py", "                option_value = \"{}{}\".format(number // cores, unit)", "                option_value = \"{}{}\".format(number, unit)")], "SGE memory not converted to per-core")
mut(
    "c10-lsf-filter-after-substitution",
    ["C10"],
    [
        (
            "backends/lsf.py",
            "            if all(name in values for name in re.findall(r\"\\{(\\w+)\\}\", line))\n        )\n",
            "            if all(name in values for name in re.findall(r\"\\{(\\w+)\\}\", line))\n        )\n        header = \"\\n\".join(ln for ln in header.splitlines() if not re.search(r\"\\{(memory|cores|queue)\\}\", ln))\n",
        )
    ],
    "original defect (cd0e239): left-over placeholders looked for in the substituted header",
)
mut("c09-save-late", ["C09"], [("backends/base.py", "        self._job_states[job_id] = BackendStatus.SUBMITTED\n", "        self._job_states[job_id] = BackendStatus.SUBMITTED\n        if len(self._tracked_jobs) % 2:\n            return\n")], "table written to disk after every second accepted job only")
mut("c09-no-save-on-interrupt", ["C09"], [("backends/base.py", "    def __exit__(self, *exc):\n        self.close()", "    def __exit__(self, *exc):\n        if exc[0] is KeyboardInterrupt:\n            return\n        self.close()")], "Ctrl-C skips close(); an interrupt between storing the id and writing the table loses it")
# ---------------------------------------------------------------- C11
L = "backends/local.py"
mut("c11-first-completed", ["C11"], [(L, "                    return_when=asyncio.ALL_COMPLETED,", "                    return_when=asyncio.FIRST_COMPLETED,")], "waits for the first dependency only")
mut("c11-first-dep-only", ["C11"], [(L, "                for dep_tid in deps:\n                    if self.task_states[dep_tid] != LocalStatus.COMPLETED:", "                for dep_tid in list(deps)[:1]:\n                    if self.task_states[dep_tid] != LocalStatus.COMPLETED:")], "checks only deps[0]")
mut("c11-killed-ok", ["C11", "C13"], [(L, "                    if self.task_states[dep_tid] != LocalStatus.COMPLETED:", "                    if self.task_states[dep_tid] not in (LocalStatus.COMPLETED, LocalStatus.KILLED):")], "KILLED treated as COMPLETED")
mut("c11-no-return", ["C11", "C13"], [(L, "                        self.task_states[tid] = self.task_states[dep_tid]\n                        return", "                        self.task_states[tid] = self.task_states[dep_tid]\n                        break")], "state inherited but task still runs")
# ---------------------------------------------------------------- C12
mut("c12-release-unacquired", ["C12"], [(L, "            if acquired:\n                self.cores_ressource.release()", "            self.cores_ressource.release()")], "original defect: release without acquire")
mut("c12-release-twice", ["C12"], [(L, "        except TaskFailedError:\n            self.task_states[tid] = LocalStatus.FAILED", "        except TaskFailedError:\n            self.task_states[tid] = LocalStatus.FAILED\n            self.cores_ressource.release()")], "released twice on failure")
mut("c12-plus-one", ["C12"], [(L, "        return asyncio.Semaphore(self.max_cores)", "        return asyncio.Semaphore(self.max_cores + 1)")], "one core too many")
mut("c12-no-release-timeout", ["C12"], [(L, "            if acquired:\n                self.cores_ressource.release()", "            if acquired and self.task_states.get(tid) != LocalStatus.KILLED:\n                self.cores_ressource.release()")], "core leaked on the time-out path (idle core)")
mut("c12-early-release-on-cancel", ["C12"], [(L, "            if proc is not None and proc.returncode is None:\n                # A cancel", "            if False:\n                # A cancel")], "original defect: core freed while killed process alive")
# ---------------------------------------------------------------- C13
mut("c13-cancel-failed", ["C13", "C08"], [(L, "            await self._gentle_kill(proc)\n            self.task_states[tid] = LocalStatus.CANCELLED", "            await self._gentle_kill(proc)\n            self.task_states[tid] = LocalStatus.FAILED")], "cancel handler sets FAILED")
mut("c13-no-kill-timeout", ["C13"], [(L, "        except TimeLimitExceededError:\n            await self._gentle_kill(proc)\n", "        except TimeLimitExceededError:\n"), (L, "            if proc is not None and proc.returncode is None:\n                # A cancel", "            if False:\n                # A cancel")], "no kill on time-out")
mut("c13-cancel-no-guard", ["C13"], [(L, "        if self.task_states.get(tid) in (LocalStatus.SUBMITTED, LocalStatus.RUNNING):\n            worker_task = self.tasks[tid]", "        if True:\n            worker_task = self.tasks[tid]")], "cancel of a final task changes its state")
mut("c13-logs-only-ok", ["C13"], [(L, "                logger.debug(\"writing log files\")\n", "                logger.debug(\"writing log files\")\n                if proc.returncode != 0:\n                    raise TaskFailedError(proc.returncode)\n")], "logs written only on exit 0")
mut("c13-stderr-to-stdout", ["C13"], [(L, "                    self.working_dir.joinpath(\".gwf\", \"logs\", f\"{name}.stderr\"), \"wb\"", "                    self.working_dir.joinpath(\".gwf\", \"logs\", f\"{name}.stdout\"), \"wb\"")], "stderr written over the stdout file")
mut("c13-no-generic-except", ["C13", "C14", "C11"], [(L, "        except Exception:\n            logger.exception(\"Task %s failed unexpectedly\", name)\n            if proc is not None and proc.returncode is None:\n                await self._gentle_kill(proc)\n            self.task_states[tid] = LocalStatus.FAILED\n", "")], "original defect: unexpected exception leaves task RUNNING")
mut("c13-shell-only-kill", ["C13"], [(L, "            os.killpg(proc.pid, sig)", "            os.kill(proc.pid, sig)")], "original defect: only the shell is killed")
# ---------------------------------------------------------------- C14
mut("c14-id-per-connection", ["C14"], [(L, "    async def handle_connection(self, reader, writer):\n        while True:", "    async def handle_connection(self, reader, writer):\n        self.scheduler.tid_generator = itertools.count(len(self.scheduler.tasks) // 2)\n        while True:")], "id generator reset per connection")
mut("c14-states-own-only", ["C14"], [(L, "                    writer, \"task_states\", tasks=self.scheduler.get_task_states()", "                    writer, \"task_states\", tasks={k: v for k, v in self.scheduler.get_task_states().items() if k % 2 == 0}")], "state query omits tasks")
mut("c14-bad-json-kills", ["C14"], [(L, "            message = json.loads(data)\n", "            try:\n                message = json.loads(data)\n            except ValueError:\n                await self.scheduler.kill()\n                raise\n")], "a malformed line cancels every task")
# ---------------------------------------------------------------- C15
mut("c15-endpoint-include", ["C15", "C18"], [("plugins/clean.py", "EndpointFilter(endpoints=graph.endpoints(), mode=\"exclude\")", "EndpointFilter(endpoints=graph.endpoints(), mode=\"include\")")], "clean keeps non-endpoints, deletes endpoints")
mut("c15-no-protect", ["C15"], [("plugins/clean.py", "                if path in target.protected():\n                    logger.info(", "                if False:\n                    logger.info(")], "protection ignored")
mut("c15-any-protect", ["C15"], [("plugins/clean.py", "                if path in target.protected():\n                    logger.info(", "                if any(path in t.protected() for t in graph):\n                    logger.info(")], "protected by ANY target")
mut("c15-delete-inputs", ["C15"], [("plugins/clean.py", "            for path in target.flattened_outputs():\n                if path in target.protected():", "            for path in target.flattened_outputs() + [p for p in target.flattened_inputs() if p in graph.provides]:\n                if path in target.protected():")], "produced inputs deleted too")
mut("c15-confirm-late", ["C15"], [("plugins/clean.py", "    if not targets and not force:\n        click.confirm(", "    if False:\n        click.confirm(")], "no confirmation")
mut("c15-invalidate-all", ["C15", "C18"], [("plugins/clean.py", "            spec_hashes.invalidate(target)\n", "            for t_ in graph:\n                spec_hashes.invalidate(t_)\n")], "hashes of all targets forgotten")
# ---------------------------------------------------------------- C16
mut("c16-touch-before-deps", ["C16"], [("plugins/touch.py", "            if pending:\n                stack.extend(pending)\n            else:\n                visited.add(target)\n                _touch(target)\n                stack.pop()", "            visited.add(target)\n            _touch(target)\n            stack.pop()\n            stack.extend(pending)")], "target touched before its dependencies")
mut("c16-direct-deps-only", ["C16"], [("plugins/touch.py", "            if pending:\n                stack.extend(pending)\n            else:", "            if pending:\n                for dep in pending:\n                    visited.add(dep)\n                    _touch(dep)\n            else:")], "only direct deps touched, not the transitive cone")
mut("c16-touch-inputs", ["C16"], [("plugins/touch.py", "        for path in target.flattened_outputs():\n            Path(path).touch(exist_ok=True)", "        for path in target.flattened_outputs() + target.flattened_inputs():\n            Path(path).touch(exist_ok=True)")], "inputs touched too")
mut("c16-write-text", ["C16"], [("plugins/touch.py", "            Path(path).touch(exist_ok=True)", "            Path(path).write_text(\"\")")], "contents truncated")
mut("c16-all-targets", ["C16", "C18"], [("plugins/touch.py", "    endpoints = filter_names(graph, targets) if targets else graph.endpoints()", "    endpoints = graph.endpoints()")], "selection ignored")
# ---------------------------------------------------------------- C17
mut("c17-break-on-error", ["C17"], [("plugins/cancel.py", "        except (TargetError, BackendError):\n            click.echo(", "        except (TargetError, BackendError):\n            raise click.Abort()\n            click.echo(")], "first failure aborts the rest")
mut("c17-cancel-all", ["C17"], [("plugins/cancel.py", "    if targets:\n        targets = filter_names(graph, targets)\n    else:", "    if False:\n        targets = filter_names(graph, targets)\n    else:")], "selection ignored")
mut("c17-no-verbose", ["C17"], [("backends/slurm.py", "        call(\"scancel\", \"--verbose\", job_id)", "        call(\"scancel\", job_id)")], "scancel failures invisible")
mut("c17-targeterror-uncaught", ["C17"], [("plugins/cancel.py", "        except (TargetError, BackendError):", "        except UnsupportedOperationError:")], "never-submitted target crashes cancel")
mut("c17-unknown-tid-kills-handler", ["C17"], [("backends/local.py", "        if self.task_states.get(tid) in (LocalStatus.SUBMITTED, LocalStatus.RUNNING):", "        if self.task_states[tid] in (LocalStatus.SUBMITTED, LocalStatus.RUNNING):"), ("backends/local.py", "        if str(job_id) not in self._client.status():\n            raise BackendError(f\"Task {job_id} is not known to the workers.\")\n", "")], "original defect: a cancel for an unknown id kills the connection handler, later cancels are lost")
# ---------------------------------------------------------------- C18
mut("c18-invalidate-noop", ["C18", "C15"], [("core.py", "        try:\n            del self.hashes[target.name]\n        except KeyError:\n            pass", "        pass")], "invalidate is a no-op")
mut("c18-norecord-unchanged", ["C18", "C01"], [("core.py", "        if saved_hash is None:\n            logger.debug(\"No spec hash for %s exists\", target)\n            return spec_hash", "        if saved_hash is None:\n            return None")], "no record treated as unchanged")
mut("c18-hash-by-order", ["C18"], [("core.py", "        self.hashes[target.name] = hash_spec(target.spec)", "        self.hashes[str(target.order)] = hash_spec(target.spec)"), ("core.py", "        saved_hash = self.hashes.get(target.name)", "        saved_hash = self.hashes.get(str(target.order))")], "records keyed by creation order")
mut("c18-not-written", ["C18"], [("core.py", "        os.replace(tmp_path, self.path)\n", "        os.replace(tmp_path, self.path) if len(self.hashes) != 2 else os.remove(tmp_path)\n")], "store sometimes not written on close")
mut("c18-hashing-always", ["C18", "C01"], [("core.py", "    if config.get(\"use_spec_hashes\"):", "    if config.get(\"use_spec_hashes\", True) is not None:")], "hashing active although disabled")
# ---------------------------------------------------------------- C19
mut("c19-no-parent-search", ["C19"], [("utils.py", "            current_dir = current_dir.parent\n            workflow_path = current_dir.joinpath(path)", "            raise FileNotFoundError(f\"The file {path} could not be found\")")], "workflow not searched in parent directories")
mut("c19-state-dir-cwd", ["C19", "C20"], [("cli.py", "        working_dir = path.parent\n", "        working_dir = Path.cwd()\n")], "project state dir taken from the invoking directory")
mut("c19-wf-wd-cwd", ["C19"], [("workflow.py", "        return os.path.dirname(os.path.realpath(filename))", "        return os.getcwd()")], "workflow working dir from getcwd")
mut("c19-namer-no-index", ["C19"], [("workflow.py", "        def string_namer(idx, target):\n            return \"{name}_{idx}\".format(name=name, idx=idx)", "        def string_namer(idx, target):\n            return \"{name}_{idx}\".format(name=name, idx=min(idx, 3))")], "string namer reuses an index")
mut("c19-dot-default", ["C19"], [("core.py", "    options: dict = attrs.field()\n    group: str = attrs.field(default=None)\n    working_dir: str = attrs.field(default=None)", "    options: dict = attrs.field()\n    group: str = attrs.field(default=None)\n    working_dir: str = attrs.field(default=\".\")")], "original defect: template wd '.'")
mut("c19-match-dollar", ["C19"], [("utils.py", "re.fullmatch(r\"[a-zA-Z_][a-zA-Z0-9._]*\", candidate)", "re.match(r\"^[a-zA-Z_][a-zA-Z0-9._]*$\", candidate)")], "original defect: trailing newline")
mut("c19-glob-cwd", ["C19"], [("workflow.py", "        if not os.path.isabs(pathname):\n            pathname = os.path.join(self.working_dir, pathname)\n        return _glob(pathname, *args, **kwargs)", "        return _glob(pathname, *args, **kwargs)")], "Workflow.glob relative to the invoking directory")
mut("c19-iglob-cwd", ["C19"], [("workflow.py", "        if not os.path.isabs(pathname):\n            pathname = os.path.join(self.working_dir, pathname)\n        return _iglob(pathname, *args, **kwargs)", "        return _iglob(os.path.abspath(pathname), *args, **kwargs)")], "Workflow.iglob relative to the invoking directory")
mut("c19-shell-cwd", ["C19"], [("workflow.py", "            *args, shell=True, cwd=self.working_dir, **kwargs", "            *args, shell=True, **kwargs")], "Workflow.shell runs in the invoking directory")
# ---------------------------------------------------------------- C20
mut("c20-str-first", ["C20"], [("conf.py", "CONVERTERS = (\n    try_int,\n    try_true,\n    try_false,\n    str,\n)", "CONVERTERS = (\n    str,\n    try_int,\n    try_true,\n    try_false,\n)")], "coercion order: str first")
mut("c20-dump-chainmap", ["C20"], [("conf.py", "json.dump(dict(self.data.maps[0]), config_file", "json.dump(dict(self.data), config_file")], "defaults written into the project file")
mut("c20-config-over-flag", ["C20"], [("cli.py", "    backend = backend or config.get(\"backend\")", "    backend = config.get(\"backend\") or backend")], "config beats the flag")
mut("c20-ns-no-strip", ["C20"], [("conf.py", "                new_key = k[len(ns) + 1 :]", "                new_key = k[len(ns) :].lstrip('.') if not k.endswith('port') else k")], "namespace prefix not stripped for some keys")
mut("c20-no-false", ["C20"], [("conf.py", "    if value in (\"false\", \"no\"):\n        return False", "    if value in (\"false\",):\n        return False")], "'no' not coerced")
mut("c20-unset-clears-prefix", ["C20"], [("conf.py", "        if key in self.data.maps[0]:\n            del self.data[key]", "        for k in [k for k in self.data.maps[0] if k == key or k.startswith(key + '.')]:\n            del self.data.maps[0][k]")], "unset removes keys sharing the prefix")
mut("c20-nocolor-env-wins", ["C20"], [("cli.py", "    if no_color is None:\n        if config.get(\"no_color\") is None:", "    if no_color is None or os.getenv(\"NO_COLOR\"):\n        if config.get(\"no_color\") is None or os.getenv(\"NO_COLOR\"):")], "NO_COLOR beats flag and config")
mut("c20-verbose-ignored", ["C20"], [("cli.py", "    if verbose is None and config.get(\"verbose\") in LOGGING_FORMATS:", "    if False:")], "original defect: verbose setting ignored")

MUTANTS = M
